"""E-IR with the D-LIN word domain: integers may be dom_lin.LV affine forms (see dom_lin.py).

Used for the portable C++ word kernels (BigInt::multiply/square, FpBase::montgomery_reduce, the division helpers).
Comparisons on affine values produce LinCond (a z3 Bool over Int terms); branches fork with the LinCtx solver.
"""
import z3

from . import eir
from .eir import ExecError, MemViolation, PathAbort, Ptr, is_conc, Undef
from .dom_lin import LV, LinCtx
from . import irparse as ir


class LinCond:
    def __init__(self, z):
        self.z = z


class LinInterp(eir.Interp):
    def __init__(self, program, lin=None, timeout_ms=60000):
        eir.Interp.__init__(self, program)
        self.L = lin or LinCtx(timeout_ms)
        self.lin_pc = []

    # ---- helpers
    def lv(self, v, bits=None):
        if isinstance(v, LV):
            return v
        if is_conc(v):
            return self.L.const(v)
        if isinstance(v, LinCond):
            return self.cond_to_lv(v)
        raise ExecError("unsupported", "mixing affine and bit-vector values (%r)" % (type(v).__name__,))

    def cond_to_lv(self, c):
        L = self.L
        k = L.new_var("cnd%d" % len(L.names), 0, 1, "quot")
        L.solver.add((L.zv[k] == 1) == c.z)
        return LV(0, {k: 1}, 0, 1)

    def _has_lin(self, *vs):
        return any(isinstance(v, (LV, LinCond)) for v in vs)

    # ---- integer semantics
    def binop(self, op, bits, a, b, flags):
        if not self._has_lin(a, b):
            return eir.Interp.binop(self, op, bits, a, b, flags)
        if isinstance(a, Ptr) or isinstance(b, Ptr):
            raise ExecError("unsupported", "pointer arithmetic with affine offset")
        L = self.L
        if bits == 1:
            za, zb = self._as_z3bool(a), self._as_z3bool(b)
            if op == "and":
                return LinCond(z3.And(za, zb))
            if op == "or":
                return LinCond(z3.Or(za, zb))
            if op == "xor":
                return LinCond(z3.Xor(za, zb))
            raise ExecError("unsupported", "i1 " + op)
        x, y = self.lv(a), self.lv(b)
        m = 1 << bits
        if op == "add":
            full = L.add(x, y)
            r, k = L.wrap(full, bits, "c")
            if ("nuw" in flags) and not (k.is_const() and k.c == 0):
                if not L.prove_zero(k, "nuw add"):
                    raise MemViolation("ub", "nuw add may overflow")
                L.assume_zero(k, "nuw add")
                r = full
            return self._norm(r)
        if op == "sub":
            full = L.sub(x, y)
            r, k = L.wrap(full, bits, "b")
            if ("nuw" in flags) and not (k.is_const() and k.c == 0):
                if not L.prove_zero(k, "nuw sub"):
                    raise MemViolation("ub", "nuw sub may overflow")
                L.assume_zero(k, "nuw sub")
                r = full
            return self._norm(r)
        if op == "mul":
            P = L.mul(x, y)
            r, k = L.wrap(P, bits, "h")
            if ("nuw" in flags) and not (k.is_const() and k.c == 0):
                if not L.prove_zero(k, "nuw mul"):
                    raise MemViolation("ub", "nuw mul may overflow")
                L.assume_zero(k, "nuw mul")
                r = P
            return self._norm(r)
        if op in ("lshr", "shl", "ashr"):
            if not y.is_const():
                raise ExecError("unsupported", "shift of an affine value by a symbolic amount")
            n = y.c
            if n >= bits:
                raise MemViolation("ub", "shift amount %d >= width %d" % (n, bits))
            if n == 0:
                return x
            if op == "lshr":
                r, q = L.wrap(x, n, "s")
                return self._norm(q)
            if op == "shl":
                # (x << n) mod 2^bits = (x mod 2^(bits-n)) * 2^n: shares the split of x at bit (bits-n) with a later `x >> (bits-n)`
                if x.lo >= 0 and x.hi < m:
                    r, k = L.wrap(x, bits - n, "s")
                    return self._norm(L.scale(r, 1 << n))
                r, k = L.wrap(L.scale(x, 1 << n), bits, "s")
                return self._norm(r)
            raise ExecError("unsupported", "ashr on affine value")
        if op == "and":
            c, v = (x, y) if x.is_const() else (y, x)
            if c.is_const():
                if c.c == 0:
                    return 0
                if (c.c & (c.c + 1)) == 0:          # low mask 2^n - 1
                    n = c.c.bit_length()
                    if n >= bits:
                        return v
                    return self._norm(L.wrap(v, n, "s")[0])
                # contiguous high mask: x & ~(2^n - 1)
                low = (~c.c) & (m - 1)
                if (low & (low + 1)) == 0:
                    n = low.bit_length()
                    r, q = L.wrap(v, n, "s")
                    return self._norm(L.scale(q, 1 << n))
            raise ExecError("unsupported", "bitwise and on affine values")
        if op in ("or", "xor"):
            # disjoint bit ranges: one operand is a multiple of 2^n, the other is below 2^n
            for u, v in ((x, y), (y, x)):
                n = self._trailing_zero_bits(u)
                if n and v.lo >= 0 and v.hi < (1 << n):
                    return self._norm(L.add(u, v))
            if x.is_const() and x.c == 0:
                return y
            if y.is_const() and y.c == 0:
                return x
            raise ExecError("unsupported", "bitwise %s on affine values with overlapping ranges" % op)
        if op in ("udiv", "urem"):
            if not y.is_const() or y.c == 0:
                raise ExecError("unsupported", "division of affine value by non-constant")
            d = y.c
            if (d & (d - 1)) == 0:
                r, q = L.wrap(x, d.bit_length() - 1, "s")
                return self._norm(q if op == "udiv" else r)
            # x = q*d + r, 0 <= r < d
            qv = L.new_var("dq%d" % len(L.names), x.lo // d if x.lo >= 0 else 0, x.hi // d, "quot")
            qf = LV(0, {qv: 1}, L.vlo[qv], L.vhi[qv])
            rem = L.sub(x, L.scale(qf, d))
            rem = L.mk(rem.c, rem.t, 0, d - 1)
            zr = L.z(rem)
            L.solver.add(zr >= 0, zr <= d - 1)
            return self._norm(qf if op == "udiv" else rem)
        raise ExecError("unsupported", "binop %s on affine values" % op)

    def intrinsic(self, name, args):
        import re as _re
        m = _re.match(r"llvm\.fsh(l|r)\.i(\d+)", name)
        if m and self._has_lin(args[0], args[1]) and is_conc(args[2]):
            # funnel shift by a constant: ((a:b) << c) >> bits  resp.  (a:b) >> c, built from the same splits as plain shifts
            bits = int(m.group(2))
            c = args[2] % bits
            a, b = self.lv(args[0]), self.lv(args[1])
            if c == 0:
                return self._norm(a if m.group(1) == "l" else b)
            L = self.L
            k = bits - c if m.group(1) == "l" else c          # split point: a keeps its low k bits, b gives its high bits-k bits
            alow = L.wrap(a, k, "s")[0]
            bhigh = L.wrap(b, k, "s")[1]
            return self._norm(L.add(L.scale(alow, 1 << (bits - k)), bhigh))
        return eir.Interp.intrinsic(self, name, args)

    def _trailing_zero_bits(self, u):
        if u.is_const():
            return (u.c & -u.c).bit_length() - 1 if u.c else 0
        g = u.c
        import math
        for k in u.t.values():
            g = math.gcd(g, k)
        return (g & -g).bit_length() - 1 if g else 0

    def _norm(self, r):
        if isinstance(r, LV) and r.is_const():
            return r.c
        return r

    def _as_z3bool(self, v):
        if isinstance(v, LinCond):
            return v.z
        if is_conc(v):
            return z3.BoolVal(bool(v))
        if isinstance(v, LV):
            return self.L.z(v) != 0
        raise ExecError("unsupported", "boolean from %r" % (v,))

    def icmp(self, pred, bits, a, b):
        if not self._has_lin(a, b):
            return eir.Interp.icmp(self, pred, bits, a, b)
        if bits == 1:
            za, zb = self._as_z3bool(a), self._as_z3bool(b)
            if pred == "eq":
                return LinCond(za == zb)
            if pred == "ne":
                return LinCond(za != zb)
            raise ExecError("unsupported", "icmp %s on i1" % pred)
        x, y = self.lv(a), self.lv(b)
        zx, zy = self.L.z(x), self.L.z(y)
        if pred in ("slt", "sle", "sgt", "sge"):
            if x.hi >= (1 << (bits - 1)) or y.hi >= (1 << (bits - 1)):
                raise ExecError("unsupported", "signed comparison of affine values that may be negative")
            pred = "u" + pred[1:]
        r = {"eq": zx == zy, "ne": zx != zy, "ult": zx < zy, "ule": zx <= zy, "ugt": zx > zy, "uge": zx >= zy}[pred]
        # decide by bounds where possible (keeps paths from forking needlessly)
        if pred == "ult" and x.hi < y.lo:
            return 1
        if pred == "ult" and x.lo >= y.hi:
            return 0
        if pred == "eq" and (x.hi < y.lo or y.hi < x.lo):
            return 0
        if pred == "ne" and (x.hi < y.lo or y.hi < x.lo):
            return 1
        return LinCond(r)

    def cast(self, op, frm_bits, to_bits, a):
        if isinstance(a, LinCond):
            if op == "zext":
                return self.cond_to_lv(a)
            if op == "trunc" and to_bits == 1:
                return a
            raise ExecError("unsupported", "cast %s of affine predicate" % op)
        if not isinstance(a, LV):
            return eir.Interp.cast(self, op, frm_bits, to_bits, a)
        if op == "zext":
            return a
        if op == "trunc":
            if to_bits == 1:
                r = self.L.wrap(a, 1, "s")[0]
                return LinCond(self.L.z(r) == 1) if not r.is_const() else r.c
            return self._norm(self.L.wrap(a, to_bits, "s")[0])
        if op == "sext":
            if a.hi < (1 << (frm_bits - 1)):
                return a
            raise ExecError("unsupported", "sext of affine value that may be negative")
        raise ExecError("unsupported", "cast " + op)

    def select(self, c, a, b, bits=None):
        if isinstance(c, LV):
            c = (1 if c.c != 0 else 0) if c.is_const() else LinCond(self.L.z(c) != 0)
        if isinstance(c, LinCond):
            if self._has_lin(a, b) or (is_conc(a) and is_conc(b)):
                if is_conc(a) and is_conc(b) and a == b:
                    return a
                x, y = self.lv(a), self.lv(b)
                L = self.L
                v = L.new_var("sel%d" % len(L.names), min(x.lo, y.lo), max(x.hi, y.hi), "quot")
                L.solver.add(L.zv[v] == z3.If(c.z, L.z(x), L.z(y)))
                return LV(0, {v: 1}, L.vlo[v], L.vhi[v])
            return a if self.branch(c) else b
        if self._has_lin(a, b) and not is_conc(c):
            raise ExecError("unsupported", "select on bit-vector condition with affine operands")
        return eir.Interp.select(self, c, a, b, bits)

    def branch(self, cond):
        if isinstance(cond, LV):          # a truth value that went through an integer (zext / select of 0 and 1)
            cond = cond.c != 0 if cond.is_const() else LinCond(self.L.z(cond) != 0)
        if isinstance(cond, LinCond):
            zc = z3.simplify(cond.z)
            if z3.is_true(zc):
                return True
            if z3.is_false(zc):
                return False
            p = self.path
            if p.idx < len(p.decisions):
                d = p.decisions[p.idx]
                p.idx += 1
            else:
                t = self._lin_feasible(zc)
                f = self._lin_feasible(z3.Not(zc))
                if t and f:
                    self.pending.append(p.decisions + [False])
                    d = True
                elif t:
                    d = True      # implied: recorded so that replays of a decision prefix stay aligned
                elif f:
                    d = False
                else:
                    raise PathAbort()
                p.decisions.append(d)
                p.idx += 1
            c = zc if d else z3.Not(zc)
            self.lin_pc.append(c)
            p.notes.append(c)
            return d
        return eir.Interp.branch(self, cond)

    def _lin_feasible(self, c):
        if self.lazy_feasibility and self.hard_feasibility:
            # in a forked child killed at the deadline: z3 does not always honour the (short) time limit of these queries, and one query that
            # runs for minutes is the difference between a verdict and a killed obligation
            ms = 3000 if self.lazy_feasibility is True else int(self.lazy_feasibility)
            v = self.L.prove_hard(z3.Not(z3.And(*(list(self.lin_pc) + [c]))), "feasibility", ms / 1000.0 + 1.0, ms)
            return v is not True       # refuted -> infeasible; satisfiable or undecided -> explore the side
        s = self.L.solver
        s.push()
        try:
            if self.lazy_feasibility:
                s.set("timeout", 3000 if self.lazy_feasibility is True else int(self.lazy_feasibility))
            for x in self.lin_pc:
                s.add(x)
            s.add(c)
            r = s.check()
        finally:
            s.pop()
            if self.lazy_feasibility:
                s.set("timeout", self.L.timeout_ms)
        if r == z3.unknown:
            if self.lazy_feasibility:
                return True        # undecided: explore the side (over-approximation; the harness's VC is stated under the path condition)
            raise ExecError("solver", "unknown on affine feasibility query")
        return r == z3.sat

    # ---- memory: cells may hold LV
    def load(self, p, ty, lay, align=None):
        t = lay.resolve(ty)
        if isinstance(t, ir.IntTy) and isinstance(p, Ptr) and p.obj is not None and is_conc(p.off):
            size = lay.size(t)
            cells = [(co, cs, cv) for co, (cs, cv) in p.obj.cells.items() if co < p.off + size and co + cs > p.off]
            if any(isinstance(cv, LV) for _, _, cv in cells):
                self._check_access(p, size, align, False)
                return self._norm(self._lin_load(p.obj, p.off, size, cells))
        return eir.Interp.load(self, p, ty, lay, align)

    def _lin_load(self, o, off, size, cells):
        L = self.L
        tot = L.const(0)
        covered = 0
        for co, cs, cv in sorted(cells):
            v = self.lv(cv) if isinstance(cv, (LV, int)) else None
            if v is None:
                raise ExecError("unsupported", "mixed affine / bit-vector bytes in one load")
            lo = max(co, off)
            hi = min(co + cs, off + size)
            piece = v
            if lo > co or hi < co + cs:
                # extract bytes [lo-co, hi-co) of the cell
                if lo > co:
                    piece = L.wrap(piece, 8 * (lo - co), "s")[1]
                piece = L.wrap(piece, 8 * (hi - lo), "s")[0]
            tot = L.add(tot, L.scale(piece, 1 << (8 * (lo - off))))
            covered += hi - lo
        if covered != size:
            raise MemViolation("uninit", "read of uninitialised bytes in %s+%d..%d" % (o.name, off, off + size))
        return tot

    def store(self, p, ty, val, lay, align=None):
        if isinstance(val, LinCond):
            val = self.cond_to_lv(val)
        if isinstance(val, LV):
            t = lay.resolve(ty)
            size = lay.size(t)
            self._check_access(p, size, align, True)
            if not is_conc(p.off):
                raise ExecError("unsupported", "affine store at symbolic offset")
            # keep cells word sized so later word loads are exact hits: split wide values
            o = p.obj
            self._lin_clear(o, p.off, size)
            o.cells[p.off] = (size, val)
            o.written = True
            return
        if isinstance(p, Ptr) and p.obj is not None and is_conc(p.off):
            t = lay.resolve(ty)
            size = lay.size(t)
            if any(isinstance(cv, LV) for co, (cs, cv) in p.obj.cells.items() if co < p.off + size and co + cs > p.off):
                self._check_access(p, size, align, True)
                self._lin_clear(p.obj, p.off, size)
                p.obj.cells[p.off] = (size, val)
                p.obj.written = True
                return
        return eir.Interp.store(self, p, ty, val, lay, align)

    def _lin_clear(self, o, off, size):
        end = off + size
        L = self.L
        for co in [co for co, (cs, cv) in o.cells.items() if co < end and co + cs > off]:
            cs, cv = o.cells.pop(co)
            if co >= off and co + cs <= end:
                continue
            if not isinstance(cv, (LV, int)):
                raise ExecError("unsupported", "partial overwrite of a non-affine cell")
            v = self.lv(cv)
            if co < off:
                n = off - co
                o.cells[co] = (n, self._norm(L.wrap(v, 8 * n, "s")[0]))
            if co + cs > end:
                n = co + cs - end
                o.cells[end] = (n, self._norm(L.wrap(v, 8 * (end - co), "s")[1]))

    def load_bytes(self, o, off, size):
        cells = [(co, cs, cv) for co, (cs, cv) in o.cells.items() if co < off + size and co + cs > off]
        if any(isinstance(cv, LV) for _, _, cv in cells):
            return self._norm(self._lin_load(o, off, size, cells))
        return eir.Interp.load_bytes(self, o, off, size)

    def clear_range(self, o, off, size):
        if any(isinstance(cv, LV) for co, (cs, cv) in o.cells.items() if co < off + size and co + cs > off):
            return self._lin_clear(o, off, size)
        return eir.Interp.clear_range(self, o, off, size)

    def explore(self, run_once, max_paths=4096):
        for path, res in eir.Interp.explore(self, self._wrap_run(run_once), max_paths):
            yield path, res

    def _wrap_run(self, run_once):
        def f():
            self.lin_pc = []
            return run_once()
        return f
