"""Reader for the textual LLVM-14 IR subset that clang-14 emits for jedi-pairing.

Only what the repo's translation units need: typed pointers, integer types,
arrays, (packed) structs, named types, function types; globals with constant
initialisers; functions with the ~35 opcodes counted in DESIGN.md section 3.1.
Anything not understood raises IRParseError (never silently skipped), except
metadata / attribute groups which carry no semantics we use.
"""
import re


class IRParseError(Exception):
    pass


# ----------------------------------------------------------------------------------------
# types
# ----------------------------------------------------------------------------------------
class Ty:
    pass


class IntTy(Ty):
    def __init__(self, bits):
        self.bits = bits
    def __repr__(self):
        return "i%d" % self.bits
    def __eq__(self, o):
        return isinstance(o, IntTy) and o.bits == self.bits
    def __hash__(self):
        return hash(("i", self.bits))


class VoidTy(Ty):
    def __repr__(self):
        return "void"


class LabelTy(Ty):
    def __repr__(self):
        return "label"


class PtrTy(Ty):
    def __init__(self, to):
        self.to = to
    def __repr__(self):
        return "%r*" % (self.to,)


class ArrTy(Ty):
    def __init__(self, n, el):
        self.n = n
        self.el = el
    def __repr__(self):
        return "[%d x %r]" % (self.n, self.el)


class StructTy(Ty):
    def __init__(self, els, packed=False):
        self.els = els
        self.packed = packed
    def __repr__(self):
        return ("<{%s}>" if self.packed else "{%s}") % ", ".join(map(repr, self.els))


class NamedTy(Ty):
    def __init__(self, name):
        self.name = name
    def __repr__(self):
        return "%" + self.name


class FnTy(Ty):
    def __init__(self, ret, params, vararg=False):
        self.ret = ret
        self.params = params
        self.vararg = vararg
    def __repr__(self):
        return "%r (%s)" % (self.ret, ", ".join(map(repr, self.params)))


class OpaqueTy(Ty):
    def __repr__(self):
        return "opaque"


# ----------------------------------------------------------------------------------------
# values (operands)
# ----------------------------------------------------------------------------------------
class Val:
    pass


class Reg(Val):
    def __init__(self, name):
        self.name = name
    def __repr__(self):
        return "%" + self.name


class GlobalRef(Val):
    def __init__(self, name):
        self.name = name
    def __repr__(self):
        return "@" + self.name


class ConstInt(Val):
    def __init__(self, v):
        self.v = v
    def __repr__(self):
        return str(self.v)


class ConstNull(Val):
    def __repr__(self):
        return "null"


class ConstUndef(Val):
    def __repr__(self):
        return "undef"


class ConstZero(Val):
    def __repr__(self):
        return "zeroinitializer"


class ConstAgg(Val):
    """struct / array constant: list of (type, value)"""
    def __init__(self, kind, els):
        self.kind = kind
        self.els = els
    def __repr__(self):
        return "%s%r" % (self.kind, self.els)


class ConstBytes(Val):
    def __init__(self, data):
        self.data = data


class ConstExpr(Val):
    def __init__(self, op, args, extra=None):
        self.op = op          # 'getelementptr' | 'bitcast' | 'ptrtoint' | 'inttoptr' | binop
        self.args = args      # list of (type, value)
        self.extra = extra    # gep: source element type; casts: target type
    def __repr__(self):
        return "%s(%r)" % (self.op, self.args)


class Instr:
    __slots__ = ("op", "res", "ty", "args", "extra", "text")
    def __init__(self, op, res, ty, args, extra, text):
        self.op = op
        self.res = res
        self.ty = ty
        self.args = args
        self.extra = extra
        self.text = text
    def __repr__(self):
        return self.text


class Param:
    def __init__(self, ty, name, attrs):
        self.ty = ty
        self.name = name
        self.attrs = attrs     # dict: noalias->True, align->n, dereferenceable->n, ...


class Function:
    def __init__(self, name, ret, params, vararg):
        self.name = name
        self.ret = ret
        self.params = params
        self.vararg = vararg
        self.blocks = {}       # label -> [Instr]
        self.order = []        # labels in textual order
        self.is_decl = False
        self.linkage = ""
        self.module = None


class Global:
    def __init__(self, name, ty, init, const, align, external, linkage):
        self.name = name
        self.ty = ty
        self.init = init
        self.const = const
        self.align = align
        self.external = external
        self.linkage = linkage


class Module:
    def __init__(self, path):
        self.path = path
        self.types = {}
        self.globals = {}
        self.functions = {}
        self.triple = ""
        self.datalayout = ""


# ----------------------------------------------------------------------------------------
# lexer
# ----------------------------------------------------------------------------------------
_TOK = re.compile(r'''
    (?P<ws>\s+)
  | (?P<comment>;[^\n]*)
  | (?P<cstr>c"(?:[^"\\]|\\[0-9A-Fa-f]{2}|\\\\)*")
  | (?P<lvar>%(?:"(?:[^"\\]|\\.)*"|[-a-zA-Z$._0-9]+))
  | (?P<gvar>@(?:"(?:[^"\\]|\\.)*"|[-a-zA-Z$._0-9]+))
  | (?P<comdat>\$(?:"(?:[^"\\]|\\.)*"|[-a-zA-Z$._0-9]+))
  | (?P<meta>![-a-zA-Z$._0-9]*)
  | (?P<attr>\#[0-9]+)
  | (?P<str>"(?:[^"\\]|\\.)*")
  | (?P<int>-?[0-9]+)
  | (?P<dots>\.\.\.)
  | (?P<word>[a-zA-Z_][a-zA-Z0-9_.]*)
  | (?P<punct><\{|\}>|[,()\[\]{}<>*=:])
''', re.X)


def lex(s):
    out = []
    pos = 0
    n = len(s)
    while pos < n:
        m = _TOK.match(s, pos)
        if not m:
            raise IRParseError("cannot lex at: %r" % s[pos:pos + 40])
        pos = m.end()
        k = m.lastgroup
        if k in ("ws", "comment"):
            continue
        out.append((k, m.group(k)))
    return out


def _unq(name):
    name = name[1:]
    if name.startswith('"'):
        name = name[1:-1]
    return name


PARAM_ATTR_WORDS = {
    "noundef", "nonnull", "noalias", "nocapture", "readonly", "readnone", "writeonly", "zeroext",
    "signext", "inreg", "returned", "nofree", "nest", "immarg", "swiftself", "nonlazybind",
}
PARAM_ATTR_ARG = {"align", "dereferenceable", "dereferenceable_or_null"}
PARAM_ATTR_TY = {"byval", "sret", "byref", "inalloca", "preallocated", "elementtype"}


class P:
    """token stream parser"""

    def __init__(self, toks, text=""):
        self.t = toks
        self.i = 0
        self.text = text

    def peek(self, k=0):
        j = self.i + k
        return self.t[j] if j < len(self.t) else (None, None)

    def next(self):
        tok = self.peek()
        self.i += 1
        return tok

    def accept(self, val):
        if self.peek()[1] == val:
            self.i += 1
            return True
        return False

    def expect(self, val):
        if not self.accept(val):
            raise IRParseError("expected %r, got %r in: %s" % (val, self.peek(), self.text[:300]))

    def done(self):
        return self.i >= len(self.t)

    # ---- types
    def ty(self):
        k, v = self.next()
        if k == "word":
            if v == "void":
                t = VoidTy()
            elif v == "label":
                t = LabelTy()
            elif v == "opaque":
                t = OpaqueTy()
            elif v == "metadata":
                t = LabelTy()
            elif re.fullmatch(r"i[0-9]+", v):
                t = IntTy(int(v[1:]))
            else:
                raise IRParseError("unknown type word %r in: %s" % (v, self.text[:300]))
        elif k == "lvar":
            t = NamedTy(_unq(v))
        elif v == "[":
            n = int(self.next()[1])
            self.expect("x")
            el = self.ty()
            self.expect("]")
            t = ArrTy(n, el)
        elif v == "{" or v == "<{":
            close = "}" if v == "{" else "}>"
            els = []
            if not self.accept(close):
                while True:
                    els.append(self.ty())
                    if self.accept(close):
                        break
                    self.expect(",")
            t = StructTy(els, packed=(v == "<{"))
        else:
            raise IRParseError("bad type start %r in: %s" % (v, self.text[:300]))
        # suffixes
        while True:
            if self.accept("*"):
                t = PtrTy(t)
            elif self.peek()[1] == "(" :
                # function type
                self.next()
                ps = []
                va = False
                if not self.accept(")"):
                    while True:
                        if self.peek()[0] == "dots":
                            self.next()
                            va = True
                        else:
                            ps.append(self.ty())
                            self.skip_param_attrs()
                        if self.accept(")"):
                            break
                        self.expect(",")
                t = FnTy(t, ps, va)
            else:
                return t

    def skip_param_attrs(self):
        attrs = {}
        while True:
            k, v = self.peek()
            if k != "word":
                return attrs
            if v in PARAM_ATTR_WORDS:
                self.next()
                attrs[v] = True
            elif v in PARAM_ATTR_ARG:
                self.next()
                if self.accept("("):
                    attrs[v] = int(self.next()[1])
                    self.expect(")")
                else:
                    attrs[v] = int(self.next()[1])
            elif v in PARAM_ATTR_TY:
                self.next()
                self.expect("(")
                attrs[v] = self.ty()
                self.expect(")")
            else:
                return attrs

    # ---- values
    def val(self, ty):
        k, v = self.next()
        if k == "lvar":
            return Reg(_unq(v))
        if k == "gvar":
            return GlobalRef(_unq(v))
        if k == "int":
            return ConstInt(int(v))
        if k == "cstr":
            return ConstBytes(_cstr(v))
        if k == "word":
            if v == "true":
                return ConstInt(1)
            if v == "false":
                return ConstInt(0)
            if v == "null":
                return ConstNull()
            if v in ("undef", "poison"):
                return ConstUndef()
            if v == "zeroinitializer":
                return ConstZero()
            if v == "getelementptr":
                self.accept("inbounds")
                self.expect("(")
                srcty = self.ty()
                self.expect(",")
                args = []
                while True:
                    self.accept("inrange")
                    t = self.ty()
                    args.append((t, self.val(t)))
                    if self.accept(")"):
                        break
                    self.expect(",")
                return ConstExpr("getelementptr", args, srcty)
            if v in ("bitcast", "ptrtoint", "inttoptr", "trunc", "zext", "sext", "addrspacecast"):
                self.expect("(")
                t = self.ty()
                a = self.val(t)
                self.expect("to")
                t2 = self.ty()
                self.expect(")")
                return ConstExpr(v, [(t, a)], t2)
            if v in ("add", "sub", "mul", "and", "or", "xor", "shl", "lshr", "ashr"):
                while self.peek()[1] in ("nuw", "nsw", "exact"):
                    self.next()
                self.expect("(")
                t = self.ty()
                a = self.val(t)
                self.expect(",")
                t2 = self.ty()
                b = self.val(t2)
                self.expect(")")
                return ConstExpr(v, [(t, a), (t2, b)])
            raise IRParseError("unknown value word %r in: %s" % (v, self.text[:300]))
        if v in ("{", "<{", "["):
            close = {"{": "}", "<{": "}>", "[": "]"}[v]
            els = []
            if not self.accept(close):
                while True:
                    t = self.ty()
                    els.append((t, self.val(t)))
                    if self.accept(close):
                        break
                    self.expect(",")
            return ConstAgg(v, els)
        if v == "<":
            raise IRParseError("vector constants unsupported: %s" % self.text[:300])
        raise IRParseError("bad value %r in: %s" % (v, self.text[:300]))

    def tyval(self):
        t = self.ty()
        attrs = self.skip_param_attrs()
        return t, self.val(t), attrs


def _cstr(tok):
    s = tok[2:-1]
    out = bytearray()
    i = 0
    while i < len(s):
        if s[i] == "\\":
            if s[i + 1] == "\\":
                out.append(0x5c)
                i += 2
            else:
                out.append(int(s[i + 1:i + 3], 16))
                i += 3
        else:
            out.append(ord(s[i]))
            i += 1
    return bytes(out)


# ----------------------------------------------------------------------------------------
# module parsing
# ----------------------------------------------------------------------------------------
LINKAGE_WORDS = {
    "private", "internal", "available_externally", "linkonce", "weak", "common", "appending",
    "extern_weak", "linkonce_odr", "weak_odr", "external", "dso_local", "dso_preemptable",
    "default", "hidden", "protected", "unnamed_addr", "local_unnamed_addr", "thread_local",
    "externally_initialized", "dllimport", "dllexport",
}

BINOPS = {"add", "sub", "mul", "udiv", "sdiv", "urem", "srem", "and", "or", "xor", "shl", "lshr", "ashr"}
CASTS = {"bitcast", "zext", "sext", "trunc", "ptrtoint", "inttoptr", "addrspacecast"}


def parse_instr(line):
    text = line.strip()
    p = P(lex(text), text)
    res = None
    if p.peek()[0] == "lvar" and p.peek(1)[1] == "=":
        res = _unq(p.next()[1])
        p.next()
    k, op = p.next()
    if op in ("tail", "musttail", "notail"):
        k, op = p.next()
    if op in BINOPS:
        flags = []
        while p.peek()[1] in ("nuw", "nsw", "exact"):
            flags.append(p.next()[1])
        t = p.ty()
        a = p.val(t)
        p.expect(",")
        b = p.val(t)
        return Instr(op, res, t, [a, b], flags, text)
    if op == "icmp":
        pred = p.next()[1]
        t = p.ty()
        a = p.val(t)
        p.expect(",")
        b = p.val(t)
        return Instr("icmp", res, t, [a, b], pred, text)
    if op in CASTS:
        t = p.ty()
        a = p.val(t)
        p.expect("to")
        t2 = p.ty()
        return Instr(op, res, t2, [a], t, text)
    if op == "alloca":
        t = p.ty()
        count = None
        align = None
        while p.accept(","):
            if p.accept("align"):
                align = int(p.next()[1])
            else:
                ct = p.ty()
                count = (ct, p.val(ct))
        return Instr("alloca", res, t, [count] if count else [], align, text)
    if op == "load":
        p.accept("volatile")
        t = p.ty()
        p.expect(",")
        pt = p.ty()
        a = p.val(pt)
        align = None
        while p.accept(","):
            if p.accept("align"):
                align = int(p.next()[1])
            else:
                p.next()  # metadata
                if p.peek()[0] == "meta":
                    p.next()
        return Instr("load", res, t, [a], align, text)
    if op == "store":
        p.accept("volatile")
        t = p.ty()
        v = p.val(t)
        p.expect(",")
        pt = p.ty()
        a = p.val(pt)
        align = None
        while p.accept(","):
            if p.accept("align"):
                align = int(p.next()[1])
            else:
                p.next()
                if p.peek()[0] == "meta":
                    p.next()
        return Instr("store", None, t, [v, a], align, text)
    if op == "getelementptr":
        inb = p.accept("inbounds")
        srcty = p.ty()
        p.expect(",")
        args = []
        while True:
            t = p.ty()
            args.append((t, p.val(t)))
            if not p.accept(","):
                break
        return Instr("getelementptr", res, srcty, args, inb, text)
    if op == "br":
        if p.accept("label"):
            return Instr("br", None, None, [], [_unq(p.next()[1])], text)
        t = p.ty()
        c = p.val(t)
        p.expect(",")
        p.expect("label")
        l1 = _unq(p.next()[1])
        p.expect(",")
        p.expect("label")
        l2 = _unq(p.next()[1])
        return Instr("br", None, None, [c], [l1, l2], text)
    if op == "switch":
        t = p.ty()
        c = p.val(t)
        p.expect(",")
        p.expect("label")
        dflt = _unq(p.next()[1])
        p.expect("[")
        cases = []
        while not p.accept("]"):
            ct = p.ty()
            cv = p.val(ct)
            p.expect(",")
            p.expect("label")
            cases.append((cv.v, _unq(p.next()[1])))
        return Instr("switch", None, t, [c], (dflt, cases), text)
    if op == "ret":
        t = p.ty()
        if isinstance(t, VoidTy):
            return Instr("ret", None, t, [], None, text)
        return Instr("ret", None, t, [p.val(t)], None, text)
    if op == "unreachable":
        return Instr("unreachable", None, None, [], None, text)
    if op == "phi":
        t = p.ty()
        inc = []
        while True:
            p.expect("[")
            v = p.val(t)
            p.expect(",")
            lab = _unq(p.next()[1])
            p.expect("]")
            inc.append((v, lab))
            if not p.accept(","):
                break
        return Instr("phi", res, t, inc, None, text)
    if op == "select":
        ct = p.ty()
        c = p.val(ct)
        p.expect(",")
        t = p.ty()
        a = p.val(t)
        p.expect(",")
        t2 = p.ty()
        b = p.val(t2)
        return Instr("select", res, t, [c, a, b], None, text)
    if op == "freeze":
        t = p.ty()
        a = p.val(t)
        return Instr("freeze", res, t, [a], None, text)
    if op == "extractvalue":
        t = p.ty()
        a = p.val(t)
        idx = []
        while p.accept(","):
            idx.append(int(p.next()[1]))
        return Instr("extractvalue", res, t, [a], idx, text)
    if op == "insertvalue":
        t = p.ty()
        a = p.val(t)
        p.expect(",")
        t2 = p.ty()
        b = p.val(t2)
        idx = []
        while p.accept(","):
            idx.append(int(p.next()[1]))
        return Instr("insertvalue", res, t, [a, b], (t2, idx), text)
    if op == "call":
        # [fast-math] [cconv] [ret attrs] ty fnptr(args) [fn attrs]
        while p.peek()[1] in ("fastcc", "ccc", "coldcc"):
            p.next()
        p.skip_param_attrs()
        t = p.ty()   # return type, or full fn type (the type parser swallows "(...)" as FnTy)
        # If t is FnTy followed by '*', type parser already handled. For "call void (i8*, ...) @f(...)"
        # t comes back as FnTy; callee follows.  For "call void @f(...)", t is the return type.
        callee = p.val(t)
        p.expect("(")
        args = []
        if not p.accept(")"):
            while True:
                at = p.ty()
                attrs = p.skip_param_attrs()
                av = p.val(at)
                args.append((at, av, attrs))
                if p.accept(")"):
                    break
                p.expect(",")
        ret = t.ret if isinstance(t, FnTy) else t
        return Instr("call", res, ret, args, callee, text)
    raise IRParseError("unknown instruction %r: %s" % (op, text[:300]))


_DEFINE = re.compile(r"^(define|declare)\b")


def parse_module(path):
    m = Module(path)
    with open(path) as f:
        lines = f.read().split("\n")
    i = 0
    n = len(lines)
    while i < n:
        line = lines[i]
        i += 1
        s = line.strip()
        if not s or s.startswith(";"):
            continue
        if s.startswith("source_filename") or s.startswith("attributes ") or s.startswith("!") or s.startswith("$"):
            continue
        if s.startswith("target triple"):
            m.triple = s.split('"')[1]
            continue
        if s.startswith("target datalayout"):
            m.datalayout = s.split('"')[1]
            continue
        if s.startswith("module asm"):
            continue
        if s.startswith("%"):
            p = P(lex(s), s)
            name = _unq(p.next()[1])
            p.expect("=")
            p.expect("type")
            m.types[name] = p.ty()
            continue
        if s.startswith("@"):
            g = _parse_global(s)
            old = m.globals.get(g.name)
            if old is None or old.external:
                m.globals[g.name] = g
            continue
        if _DEFINE.match(s):
            fn = _parse_fn_header(s)
            fn.module = m
            if s.startswith("declare"):
                fn.is_decl = True
                m.functions.setdefault(fn.name, fn)
                continue
            cur = None
            while i < n:
                l = lines[i]
                i += 1
                ls = l.strip()
                if ls == "}":
                    break
                if not ls or ls.startswith(";"):
                    continue
                mm = re.match(r'^("(?:[^"\\]|\\.)*"|[-a-zA-Z$._0-9]+):', ls)
                if mm and not l.startswith("  "):
                    cur = mm.group(1).strip('"')
                    fn.blocks[cur] = []
                    fn.order.append(cur)
                    continue
                if cur is None:
                    # implicit entry label: next unnamed value number after the parameters
                    cur = _entry_label(fn)
                    fn.blocks[cur] = []
                    fn.order.append(cur)
                if ls.startswith("switch ") and not ls.rstrip().endswith("]"):
                    while i < n:
                        more = lines[i].strip()
                        i += 1
                        ls += " " + more
                        if more == "]":
                            break
                fn.blocks[cur].append(parse_instr(ls))
            m.functions[fn.name] = fn
            continue
        raise IRParseError("unrecognised top-level line: %s" % s[:200])
    return m


def _entry_label(fn):
    k = 0
    for p in fn.params:
        if p.name is None or re.fullmatch(r"[0-9]+", p.name):
            k += 1
    return str(k)


def _parse_global(s):
    p = P(lex(s), s)
    name = _unq(p.next()[1])
    p.expect("=")
    linkage = []
    external = False
    while p.peek()[0] == "word" and p.peek()[1] in LINKAGE_WORDS:
        w = p.next()[1]
        linkage.append(w)
        if w in ("external", "extern_weak", "available_externally"):
            external = external or w != "available_externally"
    if p.peek()[1] == "alias":
        # alias: treat as unsupported unless seen
        raise IRParseError("alias unsupported: " + s[:200])
    k, w = p.next()
    if w not in ("global", "constant"):
        raise IRParseError("expected global/constant: " + s[:200])
    ty = p.ty()
    init = None
    if not external and not p.done() and p.peek()[1] != ",":
        init = p.val(ty)
    align = None
    while p.accept(","):
        if p.accept("align"):
            align = int(p.next()[1])
        elif p.accept("comdat"):
            if p.accept("("):
                p.next()
                p.expect(")")
        elif p.accept("section"):
            p.next()
        else:
            k2, w2 = p.next()
            if k2 == "meta":
                if p.peek()[0] == "meta":
                    p.next()
            else:
                raise IRParseError("global suffix %r: %s" % (w2, s[:200]))
    return Global(name, ty, init, w == "constant", align, external and init is None, linkage)


def _parse_fn_header(s):
    p = P(lex(s), s)
    p.next()  # define/declare
    linkage = []
    while p.peek()[0] == "word" and (p.peek()[1] in LINKAGE_WORDS or p.peek()[1] in ("fastcc", "ccc")):
        linkage.append(p.next()[1])
    p.skip_param_attrs()
    # return type: careful, the type parser would swallow "(params)" as a function type, so parse manually
    ret = _ret_ty(p)
    name = _unq(p.next()[1])
    p.expect("(")
    params = []
    va = False
    if not p.accept(")"):
        while True:
            if p.peek()[0] == "dots":
                p.next()
                va = True
            else:
                t = p.ty()
                attrs = p.skip_param_attrs()
                pname = None
                if p.peek()[0] == "lvar":
                    pname = _unq(p.next()[1])
                params.append(Param(t, pname, attrs))
            if p.accept(")"):
                break
            p.expect(",")
    # number unnamed params
    k = 0
    for prm in params:
        if prm.name is None:
            prm.name = str(k)
            k += 1
        elif re.fullmatch(r"[0-9]+", prm.name):
            k = int(prm.name) + 1
    fn = Function(name, ret, params, va)
    fn.linkage = " ".join(linkage)
    return fn


def _ret_ty(p):
    """parse a type but stop before a trailing '@name(' — i.e. do not treat '(' after the type as fn type
    when it is immediately preceded by the function name."""
    # Find the index of the gvar token that is the function name: first gvar at nesting depth 0.
    depth = 0
    j = p.i
    while j < len(p.t):
        k, v = p.t[j]
        if v in ("(", "[", "{", "<{"):
            depth += 1
        elif v in (")", "]", "}", "}>"):
            depth -= 1
        elif k == "gvar" and depth == 0:
            break
        j += 1
    sub = P(p.t[p.i:j], p.text)
    t = sub.ty()
    if not sub.done():
        raise IRParseError("return type parse: " + p.text[:200])
    p.i = j
    return t


# ----------------------------------------------------------------------------------------
# layout
# ----------------------------------------------------------------------------------------
class Layout:
    def __init__(self, module):
        self.m = module
        self.ptr_bytes = 8
        self.i64_align = 8
        self.i128_align = 16
        dl = module.datalayout
        mm = re.search(r"(?:^|-)p:(\d+):(\d+)", dl)
        if mm:
            self.ptr_bytes = int(mm.group(1)) // 8
        elif "thumb" in module.triple or module.triple.startswith("arm"):
            self.ptr_bytes = 4
        mm = re.search(r"(?:^|-)i64:(\d+)", dl)
        if mm:
            self.i64_align = int(mm.group(1)) // 8
        mm = re.search(r"(?:^|-)i128:(\d+)", dl)
        if mm:
            self.i128_align = int(mm.group(1)) // 8
        elif "x86_64" in module.triple or "aarch64" in module.triple:
            self.i128_align = 16
        self._cache = {}

    def resolve(self, t):
        while isinstance(t, NamedTy):
            if t.name not in self.m.types:
                raise IRParseError("unknown named type " + t.name)
            t = self.m.types[t.name]
        return t

    def size_align(self, t):
        key = repr(t)
        if key in self._cache:
            return self._cache[key]
        r = self._size_align(t)
        self._cache[key] = r
        return r

    def _size_align(self, t):
        t = self.resolve(t)
        if isinstance(t, IntTy):
            b = (t.bits + 7) // 8
            if t.bits <= 8:
                return 1, 1
            if t.bits <= 16:
                return 2, 2
            if t.bits <= 32:
                return 4, 4
            if t.bits <= 64:
                return 8, self.i64_align
            if t.bits <= 128:
                return 16, self.i128_align
            raise IRParseError("wide int type %r" % t)
        if isinstance(t, PtrTy):
            return self.ptr_bytes, self.ptr_bytes
        if isinstance(t, ArrTy):
            s, a = self.size_align(t.el)
            return s * t.n, a
        if isinstance(t, StructTy):
            off = 0
            al = 1
            for e in t.els:
                s, a = self.size_align(e)
                if t.packed:
                    a = 1
                off = (off + a - 1) // a * a
                off += s
                al = max(al, a)
            off = (off + al - 1) // al * al
            return off, al
        if isinstance(t, OpaqueTy):
            return 0, 1
        raise IRParseError("size of %r" % (t,))

    def size(self, t):
        return self.size_align(t)[0]

    def field_offset(self, t, idx):
        t = self.resolve(t)
        off = 0
        for i, e in enumerate(t.els):
            s, a = self.size_align(e)
            if t.packed:
                a = 1
            off = (off + a - 1) // a * a
            if i == idx:
                return off, e
            off += s
        raise IRParseError("field index out of range")


if __name__ == "__main__":
    import sys
    for path in sys.argv[1:]:
        m = parse_module(path)
        ni = sum(len(b) for f in m.functions.values() for b in f.blocks.values())
        print(path, len(m.types), "types", len(m.globals), "globals", len(m.functions), "functions", ni, "instrs")
