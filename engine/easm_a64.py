"""E-ASM for AArch64: interpreter over the instruction stream that clang's assembler emits for src/core/arch/aarch64/*.s
(`clang-14 -c -target aarch64-linux-gnu`, read back with llvm-objdump-14, so macros are expanded and branch targets resolved).

ONE step function serves both modes: every register word is a dom_lin.LV affine integer form.
  symbolic mode : input words are LinCtx variables; a wrap-around introduces a quotient variable (dom_lin substitution form);
                  word products of two symbolic words are opaque, products by constants stay linear
  concrete mode : all inputs are constant forms; dom_lin folds constants exactly, no solver is ever consulted.  The concrete
                  mode therefore validates the very code that the proofs run (self-test) and replays solver models
                  (there is no AArch64 hardware or emulator in the sandbox).
NZCV: C is a carry *form* (AArch64 convention: after a subtraction C = NOT borrow); N and Z are derived from the result form
on demand; V is only known in concrete mode or after a compare (reading an unknown flag is an error, never a guess).
A `cmp` that feeds a conditional branch compares the two integers directly; with `cut_at_compare` the first such compare
havocs every symbolic word into a fresh variable of a new LinCtx (definitions kept in `cuts`), so the compare/conditional-
subtract suffix is decided on a small constraint set; `cut_at_mul_by` does the same before the first multiplication by a given
constant (the boundary between the 768-bit product and the Montgomery reduction of the fused routines).
Checked on every run of every routine: loads only of initialised words inside an operand object or the live frame, stores
only inside writable objects or the live frame, no access below sp or into the caller's frame, sp 16-byte aligned when used
as a base, sp / x19-x28 / x29 / x30 (and the platform register x18) restored at ret, no use of a register that holds no
defined value (caller-saved temporaries at entry, the caller's x19-x28), no pointer used as data, no read of an unknown flag;
a carry/borrow that is overwritten unread must be *proved* zero by the solver, otherwise it is listed in `lost_carries`.
"""
import os
import re
import subprocess
import time
import z3

from .eir import ExecError, MemViolation, PathAbort, Ptr, Obj
from .dom_lin import LV, LinCtx

W = 1 << 64
PRESERVED = ["x%d" % i for i in range(18, 31)]
CC_BASE = {"eq": "eq", "ne": "eq", "hs": "hs", "cs": "hs", "lo": "hs", "cc": "hs", "mi": "mi", "pl": "mi", "vs": "vs", "vc": "vs",
           "hi": "hi", "ls": "hi", "ge": "ge", "lt": "ge", "gt": "gt", "le": "gt", "al": "al", "nv": "al"}
CC_NEG = {"ne", "lo", "cc", "pl", "vc", "ls", "lt", "le"}


def assemble(srcs, workdir):
    objs = []
    for s in srcs:
        o = os.path.join(workdir, os.path.basename(s)[:-2] + ".o")
        r = subprocess.run(["clang-14", "-c", "-target", "aarch64-linux-gnu", s, "-o", o], capture_output=True, text=True)
        if r.returncode != 0:
            raise RuntimeError("assembler failed on %s: %s" % (s, r.stderr[-2000:]))
        objs.append(o)
    return objs


def split_ops(s):
    s = re.sub(r"\s*<[^>]*>", "", s.split("//")[0]).strip()
    out, cur, depth = [], "", 0
    for ch in s:
        depth += (ch == "[") - (ch == "]")
        if ch == "," and depth == 0:
            out.append(cur.strip())
            cur = ""
        else:
            cur += ch
    return out + ([cur.strip()] if cur.strip() else [])


class A64Program:
    def __init__(self, objs):
        self.ins, self.order, self.sym, self.next = {}, [], {}, {}
        base = 0
        for obj in objs:
            out = subprocess.run(["llvm-objdump-14", "-d", "--no-show-raw-insn", obj], capture_output=True, text=True, check=True).stdout
            top = base
            for line in out.split("\n"):
                m = re.match(r"^([0-9a-f]+) <([^>]+)>:", line)
                if m:
                    self.sym[m.group(2)] = base + int(m.group(1), 16)
                    continue
                m = re.match(r"^\s*([0-9a-f]+):\s+(\S+)\s*(.*)$", line)
                if m:
                    a = base + int(m.group(1), 16)
                    self.ins[a] = (m.group(2), split_ops(m.group(3)), line.strip(), base)
                    self.order.append(a)
                    top = max(top, a + 4)
            base = (top + 0xfff) & ~0xfff
        for a, b in zip(self.order, self.order[1:]):
            self.next[a] = b


class Token:
    """the caller's (unknown) value of a register that must be preserved"""
    def __init__(self, reg):
        self.reg = reg

    def __repr__(self):
        return "caller's " + self.reg


class A64:
    def __init__(self, prog, L=None, timeout_ms=20000):
        self.p = prog
        self.L = L or LinCtx(timeout_ms)
        self.cut_at_compare = False
        self.cut_at_mul_by = None      # constant: cut before the first multiplication of a symbolic word by it
        self.record_mul_by = None      # constant: low words of multiplications by it are appended to inv_muls
        self.on_cut = None             # callable(self, cut) run in the new context right after a cut (to state what is assumed there)
        self.queries = 0
        self.steps = 0
        self.eager_wasted = 0.0

    # ------------------------------------------------------------------ state
    def start(self, symbol, args, objects):
        """AAPCS64: arguments in x0..x7; x30 holds the return address"""
        self.objects = list({id(o): o for o in objects}.values())       # an aliased operand is listed once
        self.stack = Obj("stack", 4096, "alloca", 16)
        self.sp0 = 2048
        self.regs = {"x%d" % i: None for i in range(31)}
        self.regs["sp"] = Ptr(self.stack, self.sp0)
        for r, a in zip(["x%d" % i for i in range(8)], args):
            self.regs[r] = a
        self.init = {r: Token(r) for r in PRESERVED}
        self.regs.update(self.init)
        self.C, self.C_lost, self.C_unread, self.fl = None, None, False, None
        self.lost_carries, self.proved_carries = [], 0
        self.cuts, self.inv_muls, self.first_mul_regs = [], [], None
        self.pc, self.decisions, self.idx = [], [], 0
        self.cur = self.p.sym[symbol]
        self._snapshot()

    def _snapshot(self):
        self.snap = (dict(self.regs), self.C, self.C_lost, self.C_unread, self.fl, self.cur, self.L, len(self.cuts), len(self.inv_muls),
                     [(o, dict(o.cells)) for o in self.objects + [self.stack]])

    def _restore(self):
        regs, self.C, self.C_lost, self.C_unread, self.fl, self.cur, self.L, nc, ni, cells = self.snap
        self.regs = dict(regs)
        del self.cuts[nc:], self.inv_muls[ni:]
        for o, c in cells:
            o.cells = dict(c)

    def explore(self, symbol, args, objects, max_paths=64):
        """runs the routine on every feasible path; yields (path condition, x0 at ret).  Paths restart from the last cut."""
        self.start(symbol, args, objects)
        self.pending = [[]]
        n = 0
        while self.pending:
            self.decisions, self.idx, self.pc = list(self.pending.pop()), 0, []
            n += 1
            if n > max_paths:
                raise ExecError("budget", "too many paths")
            self._restore()
            try:
                ret = self._run()
            except PathAbort:
                continue
            yield list(self.pc), ret

    def run(self, symbol, args, objects):
        """single path (straight-line routines and concrete mode)"""
        paths = list(self.explore(symbol, args, objects))
        if len(paths) != 1:
            raise ExecError("unsupported", "%d paths where one was expected in %s" % (len(paths), symbol))
        return paths[0][1]

    def _run(self):
        while True:
            self.steps += 1
            if self.steps > 400000:
                raise ExecError("budget", "instruction budget")
            if self.cur not in self.p.ins:
                raise ExecError("unsupported", "execution left the text (%r)" % (self.cur,))
            mn, ops, text, base = self.p.ins[self.cur]
            r = self.step(mn, ops, base)
            if r == "ret":
                sp = self.regs["sp"]
                if not isinstance(sp, Ptr) or sp.obj is not self.stack or sp.off != self.sp0:
                    raise MemViolation("stack", "sp not restored at ret (%r)" % (sp,))
                for rr in PRESERVED:
                    if self.regs[rr] is not self.init[rr]:
                        raise MemViolation("callee-saved", "%s not restored at ret (%#x)" % (rr, self.cur))
                return self.regs["x0"]
            self.cur = r if isinstance(r, int) else self.p.next.get(self.cur)

    # ------------------------------------------------------------------ operands
    def _word(self, op):
        """data operand: an LV"""
        if op == "xzr":
            return self.L.const(0)
        if op.startswith("#"):
            return self.L.const(int(op[1:], 0) % W)
        if op not in self.regs or op == "sp":
            raise ExecError("unsupported", "operand %s at %#x" % (op, self.cur))
        v = self.regs[op]
        if v is None or isinstance(v, Token):
            raise MemViolation("uninit-reg", "%s is read at %#x (%s) but holds no defined value (%s)" % (
                op, self.cur, self.p.ins[self.cur][2], "undefined at entry" if v is None else v))
        if isinstance(v, Ptr):
            raise MemViolation("ptr-as-data", "%s holds the address %r and is used as a data word at %#x" % (op, v, self.cur))
        return v

    def _set(self, op, v):
        if op == "xzr":
            return
        if op not in self.regs:
            raise ExecError("unsupported", "destination %s at %#x" % (op, self.cur))
        self.regs[op] = v

    def _imm(self, op):
        if not op.startswith("#"):
            raise ExecError("unsupported", "immediate expected: %s at %#x" % (op, self.cur))
        return int(op[1:], 0)

    def _access(self, op, post, size, write):
        """resolves [Xn|sp{, #imm}]{!} / [Xn|sp], #imm; performs the write-back; returns the Ptr of the access"""
        m = re.fullmatch(r"\[(\w+)(?:,\s*#(-?\w+))?\](!?)", op)
        if not m:
            raise ExecError("unsupported", "addressing mode %s at %#x" % (op, self.cur))
        base = self.regs.get(m.group(1))
        if not isinstance(base, Ptr) or base.obj is None:
            raise MemViolation("wild", "memory access through %s, which holds no object address (%r), at %#x" % (m.group(1), base, self.cur))
        disp = int(m.group(2), 0) if m.group(2) else 0
        if post is not None and (m.group(2) or m.group(3)):
            raise ExecError("unsupported", "addressing mode %s, %s" % (op, post))
        p = Ptr(base.obj, base.off + disp)
        newbase = Ptr(base.obj, base.off + self._imm(post)) if post is not None else (p if m.group(3) else None)
        o = p.obj
        if m.group(1) == "sp" and base.off % 16:
            raise MemViolation("sp-align", "sp is not 16-byte aligned when used as a base at %#x" % self.cur)
        if o is self.stack:
            sp = self.regs["sp"].off if self.regs["sp"].obj is self.stack else self.sp0
            live = min(sp, newbase.off) if (newbase is not None and m.group(1) == "sp") else sp
            if p.off < live or p.off + size > self.sp0:
                raise MemViolation("frame", "%s of stack bytes [%d,%d) outside the live frame [%d,%d) at %#x" % (
                    "store" if write else "load", p.off, p.off + size, live, self.sp0, self.cur))
        elif p.off < 0 or p.off + size > o.size:
            raise MemViolation("oob", "%s of %d bytes at %s+%d (size %d) at %#x" % ("store" if write else "load", size, o.name, p.off, o.size, self.cur))
        if write and o.const:
            raise MemViolation("const", "store into read-only operand %s+%d at %#x" % (o.name, p.off, self.cur))
        if p.off % 8:
            raise MemViolation("misaligned", "access at %s+%d is not word aligned at %#x" % (o.name, p.off, self.cur))
        if newbase is not None:
            self.regs[m.group(1)] = newbase
        return p

    def _memop(self, mn, ops):
        n = 2 if mn in ("ldp", "stp") else 1
        regs, addr, post = ops[:n], ops[n], (ops[n + 1] if len(ops) > n + 1 else None)
        if any(r.startswith("w") for r in regs):
            raise ExecError("unsupported", "32-bit transfer at %#x" % self.cur)
        write = mn in ("stp", "str")
        wb = post is not None or addr.endswith("!")
        basereg = addr[1:].split(",")[0].rstrip("]")
        if wb and basereg in regs or (not write and n == 2 and regs[0] == regs[1]):
            raise MemViolation("unpredictable", "CONSTRAINED UNPREDICTABLE register combination at %#x: %s" % (self.cur, self.p.ins[self.cur][2]))
        vals = [self.L.const(0) if r == "xzr" else self.regs[r] for r in regs] if write else None
        p = self._access(addr, post, 8 * n, write)
        for i, r in enumerate(regs):
            off = p.off + 8 * i
            if write:
                if vals[i] is None:
                    raise MemViolation("uninit-reg", "%s is stored at %#x but holds no defined value" % (r, self.cur))
                p.obj.cells[off] = (8, vals[i])
                p.obj.written = True
            else:
                c = p.obj.cells.get(off)
                if c is None or c[0] != 8:
                    raise MemViolation("uninit", "load of uninitialised word %s+%d at %#x" % (p.obj.name, off, self.cur))
                self._set(r, c[1])

    # ------------------------------------------------------------------ flags
    def _drop_C(self):
        """the carry/borrow information in C is about to be overwritten (or the routine returns) without having been read"""
        k = self.C_lost
        if self.C_unread and isinstance(k, LV) and not (k.is_const() and k.c == 0):
            L = self.L
            ok = (k.c == 0) if k.is_const() else (k.lo == k.hi == 0) or (k.lo <= 0 <= k.hi and self._prove(L.z(k) == 0))
            if ok:
                if not k.is_const():
                    self._assume_zero(k, "carry dropped at %#x proved zero" % self.cur)
                self.proved_carries += 1
            else:
                self.lost_carries.append((self.cur, self.p.ins[self.cur][2]))
        self.C_unread = False

    def _prove(self, cond, timeout_ms=None):
        """eager side proofs (dropped carries, zero low words).  A proof that fails or times out only leaves the word symbolic, so
        these are bounded: EAGER_MS each, and none is attempted once EAGER_FAIL_S seconds have been spent on unsuccessful ones"""
        if self.eager_wasted > self.EAGER_FAIL_S:
            return False
        self.queries += 1
        t0 = time.time()
        ok = self.L.prove(z3.Implies(z3.And(*self.pc), cond) if self.pc else cond, "", min(timeout_ms or self.EAGER_MS, self.EAGER_MS))
        if not ok:
            self.eager_wasted += time.time() - t0
        return bool(ok)

    EAGER_MS = 5000
    EAGER_FAIL_S = 20.0

    def _assume_zero(self, lv, label):
        """records a fact that _prove established (under the current path condition, if any) so later queries get it for free"""
        self.L.solver.add(z3.Implies(z3.And(*self.pc), self.L.z(lv) == 0) if self.pc else self.L.z(lv) == 0)
        self.L.lemmas.append(label)

    def _set_flags(self, C, lost, fl):
        self._drop_C()
        self.C, self.C_lost, self.fl = C, lost, fl
        self.C_unread = isinstance(lost, LV) and not lost.is_const()

    def _read_C(self):
        """C as a form in {0,1}"""
        self._need_C()
        self.C_unread = False
        if not isinstance(self.C, LV):
            self.C = self._bool_lv(self.C)
        return self.C

    def _need_C(self):
        if self.C is None:
            raise MemViolation("undef-flag", "C flag is read at %#x (%s) but no instruction of the routine has set it" % (self.cur, self.p.ins[self.cur][2]))
        if isinstance(self.C, str):
            raise ExecError("unsupported", "C flag computed by a compare before a cut is read after it (%#x)" % self.cur)

    def _bool_lv(self, b):
        b = z3.simplify(b)
        if z3.is_true(b) or z3.is_false(b):
            return self.L.const(int(z3.is_true(b)))
        i = self.L.new_var("f%d" % len(self.L.names), 0, 1, "quot")
        self.L.solver.add(self.L.zv[i] == z3.If(b, 1, 0))
        return LV(0, {i: 1}, 0, 1)

    def cond(self, cc):
        """condition code -> python bool or z3 Bool over the current LinCtx"""
        if cc not in CC_BASE:
            raise ExecError("unsupported", "condition %s" % cc)
        L, base, fl = self.L, CC_BASE[cc], self.fl
        if base == "al":
            return True

        def C():
            if isinstance(self.C, LV):
                c = self._read_C()
                return z3.BoolVal(c.c != 0) if c.is_const() else L.z(c) >= 1
            self._need_C()
            self.C_unread = False
            return self.C

        def nzv(which):
            if fl is None:
                raise MemViolation("undef-flag", "flag %s is read at %#x but no instruction of the routine has set it" % (which, self.cur))
            if fl[0] == "arith":
                r, v = L.z(fl[1]), fl[2]
                if which == "V" and v is None:
                    raise ExecError("undef-flag", "V after symbolic arithmetic is not modelled (%#x)" % self.cur)
                return {"Z": r == 0, "N": r >= W // 2, "V": z3.BoolVal(bool(v))}[which]
            x, y = L.z(fl[1]), L.z(fl[2])
            sx, sy = z3.If(x >= W // 2, x - W, x), z3.If(y >= W // 2, y - W, y)
            return {"Z": x == y, "N": z3.If(x >= y, x - y, x - y + W) >= W // 2, "V": z3.Or(sx - sy >= W // 2, sx - sy < -(W // 2))}[which]
        r = {"eq": lambda: nzv("Z"), "hs": C, "mi": lambda: nzv("N"), "vs": lambda: nzv("V"), "hi": lambda: z3.And(C(), z3.Not(nzv("Z"))),
             "ge": lambda: nzv("N") == nzv("V"), "gt": lambda: z3.And(z3.Not(nzv("Z")), nzv("N") == nzv("V"))}[base]()
        r = z3.simplify(z3.Not(r) if cc in CC_NEG else r)
        return True if z3.is_true(r) else False if z3.is_false(r) else r

    # ------------------------------------------------------------------ forking
    def _feasible(self, cond):
        s = self.L.solver
        s.push()
        try:
            s.add(*(self.pc + [cond]))
            r = s.check()
            self.queries += 1
        finally:
            s.pop()
        if r == z3.unknown:
            raise ExecError("solver", "unknown on feasibility")
        return r == z3.sat

    def branch(self, cond):
        if isinstance(cond, bool):
            return cond
        if self.idx < len(self.decisions):
            d = self.decisions[self.idx]
        else:
            t, f = self._feasible(cond), self._feasible(z3.Not(cond))
            if not t and not f:
                raise PathAbort()
            if t and f:
                self.pending.append(self.decisions + [False])
            d = t
            self.decisions.append(d)
        self.idx += 1
        self.pc.append(cond if d else z3.Not(cond))
        return d

    # ------------------------------------------------------------------ cut
    def _cut(self, why):
        """havoc: every symbolic word (registers, memory, C) becomes a fresh variable of a new LinCtx; definitions are kept"""
        if self.pc:
            raise ExecError("unsupported", "cut under a path condition")
        L1, L2 = self.L, LinCtx(self.L.timeout_ms)
        defs, seen, n = {}, {}, len(self.cuts) + 1

        def conv(v):
            if not isinstance(v, LV):
                return v
            if v.is_const():
                return L2.const(v.c)
            k = L1.key(v)
            if k not in seen:
                name = "t%d_%d" % (n, len(seen) + 1)
                seen[k] = LV(0, {L2.new_var(name, v.lo, v.hi): 1}, v.lo, v.hi)
                defs[name] = (seen[k], v)
            return seen[k]
        k = self.C_lost
        if self.C_unread and isinstance(k, LV) and k.t and k.lo <= 0 <= k.hi and self._prove(L1.z(k) == 0):
            # an unread carry that is provably zero here is replaced by its constant (it would be unprovable after the havoc)
            self._assume_zero(k, "unread carry at the cut %#x proved zero" % self.cur)
            self.proved_carries += 1
            c = L1.sub(self.C, k)
            self.C, self.C_lost, self.C_unread = (c if c.is_const() else L1.add(self.C, k)), L1.const(0), False
        for r in self.regs:
            self.regs[r] = conv(self.regs[r])
        for o in self.objects + [self.stack]:
            o.cells = {off: (sz, conv(v)) for off, (sz, v) in o.cells.items()}
        self.C, self.C_lost = conv(self.C), conv(self.C_lost)
        if self.C is not None and not isinstance(self.C, LV):
            self.C = "cut"         # a z3 Bool of the old context cannot be carried over
        if self.fl is not None:
            self.fl = (self.fl[0], conv(self.fl[1]), conv(self.fl[2]) if self.fl[0] == "cmp" else self.fl[2])
        self.cuts.append({"L": L1, "defs": defs, "at": self.cur, "why": why})
        self.L = L2
        if self.on_cut is not None:
            self.on_cut(self, self.cuts[-1])
        self._snapshot()

    # ------------------------------------------------------------------ arithmetic
    def _wrap(self, full, what):
        L = self.L
        if not full.is_const() and full.lo >= -1 and full.hi <= 0:
            return L.scale(full, 1 - W), full          # full in {-1,0}: the quotient is full itself, the word is full*(1-2^64)
        r, k = L.wrap(full, 64, what)
        if r.t and r.c % W == 0 and all(c % W == 0 for c in r.t.values()) and self._prove(L.z(r) == 0):
            # a word in [0,2^64) all of whose coefficients are multiples of 2^64 (Montgomery low word) is zero
            self._assume_zero(r, "word at %#x is a multiple of 2^64 in [0,2^64): zero" % self.cur)
            r = L.const(0)
        return r, k

    def _arith(self, mn, d, xo, yo):
        L = self.L
        sub, carry, setf = mn[0] == "s", mn[:3] in ("adc", "sbc"), mn.endswith("s")
        xv = self.regs.get(xo)
        if isinstance(xv, Ptr) and not setf and not carry:         # address arithmetic: add/sub Xd|sp, Xn|sp, #imm
            self._set(d, Ptr(xv.obj, xv.off + (-1 if sub else 1) * self._imm(yo)))
            return
        if d == "sp" or xo == "sp":
            raise ExecError("unsupported", "sp in data arithmetic at %#x" % self.cur)
        x, y = self._word(xo), self._word(yo)
        cin = self._read_C() if carry else None
        if sub:
            full = L.sub(x, y) if cin is None else L.add(L.sub(x, y), L.sub(cin, L.const(1)))
            r, k = self._wrap(full, "b")
            C, lost = L.add(k, L.const(1)), L.neg(k)
        else:
            full = L.add(x, y) if cin is None else L.add(L.add(x, y), cin)
            r, k = self._wrap(full, "c")
            if cin is not None and k.t and (x.is_const() and x.c == 0 or y.is_const() and y.c == 0) and self._prove(L.z(k) == 0, 1500):
                # 'adcs hi, hi, xzr': the carry into a high product word cannot overflow it; discharged eagerly
                self._assume_zero(k, "carry out of 'adcs x, x, xzr' at %#x proved zero" % self.cur)
                self.proved_carries += 1
                k = L.const(0)
            C = lost = k
        if setf:
            v = None
            if x.is_const() and y.is_const() and r.is_const():
                sx, sy, sr = x.c >> 63, y.c >> 63, r.c >> 63
                v = (sx != sy and sr != sx) if sub else (sx == sy and sr != sx)
            self._set_flags(C, lost, ("arith", r, v))
        self._set(d, r)

    def _mul(self, x, y):
        L = self.L
        for u, v in ((x, y), (y, x)):
            if self.cut_at_mul_by is not None and u.is_const() and u.c == self.cut_at_mul_by and not v.is_const() and not self.cuts:
                self._cut("first multiplication by the constant %#x" % u.c)
                return None
        lo, hi = L.wrap(L.mul(x, y), 64, "h")
        if self.record_mul_by is not None and (x.is_const() and x.c == self.record_mul_by or y.is_const() and y.c == self.record_mul_by):
            self.inv_muls.append((len(self.cuts), lo))
            if self.first_mul_regs is None:
                self.first_mul_regs = dict(self.regs)
        return lo, hi

    # ------------------------------------------------------------------ instructions
    def step(self, mn, ops, base):
        L = self.L
        if mn in ("ldp", "stp", "ldr", "str"):
            return self._memop(mn, ops)
        if mn in ("cmp", "cmn", "neg", "negs", "ngc", "ngcs"):         # aliases of subs/adds/sub/sbc with xzr
            mn, ops = {"cmp": ("subs", ["xzr"] + ops), "cmn": ("adds", ["xzr"] + ops), "neg": ("sub", [ops[0], "xzr", ops[1]]),
                       "negs": ("subs", [ops[0], "xzr", ops[1]]), "ngc": ("sbc", [ops[0], "xzr", ops[1]]), "ngcs": ("sbcs", [ops[0], "xzr", ops[1]])}[mn]
        if mn in ("add", "adds", "adc", "adcs", "sub", "subs", "sbc", "sbcs"):
            if len(ops) == 4 and ops[3].replace(" ", "") in ("lsl#0",):
                ops = ops[:3]
            if len(ops) != 3:
                raise ExecError("unsupported", "shifted/extended operand at %#x: %s" % (self.cur, ops))
            nxt = self.p.ins.get(self.p.next.get(self.cur), ("",))[0]
            if mn == "subs" and ops[0] == "xzr" and nxt.startswith("b.") and not isinstance(self.regs.get(ops[1]), Ptr):
                x, y = self._word(ops[1]), self._word(ops[2])
                if not (x.is_const() and y.is_const()):
                    # compare feeding a conditional branch: flags are the integer comparison of the two words
                    if self.cut_at_compare and not any(c["why"] == "first compare" for c in self.cuts):
                        self._cut("first compare")
                        x, y = self._word(ops[1]), self._word(ops[2])
                    self._set_flags(self.L.z(x) >= self.L.z(y), None, ("cmp", x, y))
                    return None
            return self._arith(mn, ops[0], ops[1], ops[2])
        if mn == "mov":
            s = ops[1]
            v = L.const(self._imm(s) % W) if s.startswith("#") else L.const(0) if s == "xzr" else self.regs.get(s)
            if v is None:
                raise MemViolation("uninit-reg", "%s is copied at %#x but holds no defined value" % (s, self.cur))
            if ops[0] == "sp" or s == "sp":
                if not isinstance(v, Ptr):
                    raise ExecError("unsupported", "sp := non-address at %#x" % self.cur)
                self.regs[ops[0]] = v
            else:
                self._set(ops[0], v)
            return None
        if mn in ("mul", "umulh", "madd"):
            got = self._mul(self._word(ops[1]), self._word(ops[2]))
            if got is None:                        # a cut happened: operands now live in the new context
                got = self._mul(self._word(ops[1]), self._word(ops[2]))
            lo, hi = got
            if mn == "madd":
                lo = self._wrap(self.L.add(lo, self._word(ops[3])), "m")[0]
            self._set(ops[0], hi if mn == "umulh" else lo)
            return None
        if mn in ("csel", "cset", "csetm"):
            c = self.cond(ops[-1])
            if mn == "cset" and CC_BASE.get(ops[1]) == "hs" and isinstance(self.C, LV):
                cf = self._read_C()
                self._set(ops[0], L.sub(L.const(1), cf) if ops[1] in CC_NEG else cf)
                return None
            t = self.branch(c)
            if mn == "csel":
                src = ops[1] if t else ops[2]
                v = L.const(0) if src == "xzr" else self.regs.get(src)
                if v is None:
                    raise MemViolation("uninit-reg", "csel selects %s, which holds no defined value, at %#x" % (src, self.cur))
                self._set(ops[0], v)
            else:
                self._set(ops[0], L.const((1 if mn == "cset" else W - 1) if t else 0))
            return None
        if mn.startswith("b."):
            return base + int(ops[0], 16) if self.branch(self.cond(mn[2:])) else None
        if mn == "b":
            return base + int(ops[0], 16)
        if mn in ("cbz", "cbnz"):
            v = self._word(ops[0])
            z = (v.c == 0) if v.is_const() else L.z(v) == 0
            z = (not z if isinstance(z, bool) else z3.Not(z)) if mn == "cbnz" else z
            return base + int(ops[1], 16) if self.branch(z) else None
        if mn == "ret":
            if self.regs[ops[0] if ops else "x30"] is not self.init["x30"]:
                raise MemViolation("stack", "ret through a register that does not hold the return address at %#x" % self.cur)
            self._drop_C()
            return "ret"
        if mn == "nop":
            return None
        raise ExecError("unsupported", "AArch64 instruction at %#x: %s" % (self.cur, self.p.ins[self.cur][2]))
