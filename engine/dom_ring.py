"""D-RING: ring elements as integer polynomial terms (DESIGN.md section 3.3).

An element is a fraction num/den of z3 Int terms (den == 1 almost always; inverses introduce
denominators).  Equalities `a == b in F_q` are decided by z3 as  (a.num*b.den - b.num*a.den) mod q != 0
being unsatisfiable over the integers: Z -> F_q is a ring homomorphism, so an identity over Z modulo q is
an identity in F_q.  Nothing is ever concluded from a hypothesis stated over Z.

Each element also carries an *untrusted* sparse polynomial (dict monomial -> coeff mod q) used only to
 - short-cut obviously-zero questions before asking the solver (the solver is still asked),
 - find factor certificates (trial division by the case hypotheses), which the solver then checks,
 - turn a `sat` answer into field inputs for replay.
"""
import itertools
import time
import z3

from .eir import ACond, ExecError, Ptr, is_conc, ZextCond


class Poly:
    """sparse multivariate polynomial with coefficients mod q (untrusted helper)"""
    __slots__ = ("t", "q")

    def __init__(self, terms, q):
        self.t = terms   # dict: tuple(sorted (var, exp)) -> coeff in [1, q)
        self.q = q

    @staticmethod
    def const(c, q):
        c %= q
        return Poly({(): c} if c else {}, q)

    @staticmethod
    def var(name, q):
        return Poly({((name, 1),): 1}, q)

    def is_zero(self):
        return not self.t

    def is_const(self):
        return not self.t or (len(self.t) == 1 and () in self.t)

    def const_value(self):
        return self.t.get((), 0)

    def __add__(self, o):
        r = dict(self.t)
        q = self.q
        for m, c in o.t.items():
            v = (r.get(m, 0) + c) % q
            if v:
                r[m] = v
            else:
                r.pop(m, None)
        return Poly(r, q)

    def __neg__(self):
        q = self.q
        return Poly({m: q - c for m, c in self.t.items()}, q)

    def __sub__(self, o):
        return self + (-o)

    def __mul__(self, o):
        q = self.q
        r = {}
        if len(self.t) * len(o.t) > 4000000:
            raise ExecError("budget", "polynomial product too large")
        for m1, c1 in self.t.items():
            for m2, c2 in o.t.items():
                m = _mmul(m1, m2)
                v = (r.get(m, 0) + c1 * c2) % q
                if v:
                    r[m] = v
                else:
                    r.pop(m, None)
        return Poly(r, q)

    def scale(self, c):
        c %= self.q
        if not c:
            return Poly({}, self.q)
        return Poly({m: (v * c) % self.q for m, v in self.t.items()}, self.q)

    def lead(self):
        m = max(self.t, key=_mkey)
        return m, self.t[m]

    def divide_exact(self, d):
        """returns quotient if d divides self exactly (mod q), else None"""
        if d.is_zero():
            return None
        q = self.q
        rem = Poly(dict(self.t), q)
        quo = {}
        dm, dc = d.lead()
        dinv = pow(dc, -1, q)
        steps = 0
        while rem.t:
            rm, rc = rem.lead()
            mq = _mdiv(rm, dm)
            if mq is None:
                return None
            c = (rc * dinv) % q
            quo[mq] = c
            rem = rem - (d * Poly({mq: c}, q))
            steps += 1
            if steps > 200000:
                return None
        return Poly(quo, q)

    def variables(self):
        s = set()
        for m in self.t:
            for v, e in m:
                s.add(v)
        return s

    def evaluate(self, env):
        q = self.q
        tot = 0
        for m, c in self.t.items():
            v = c
            for name, e in m:
                v = v * pow(env[name], e, q) % q
            tot = (tot + v) % q
        return tot

    def degree(self):
        return max((sum(e for _, e in m) for m in self.t), default=0)


def _mmul(m1, m2):
    if not m1:
        return m2
    if not m2:
        return m1
    d = dict(m1)
    for v, e in m2:
        d[v] = d.get(v, 0) + e
    return tuple(sorted(d.items()))


def _mdiv(m1, m2):
    d = dict(m1)
    for v, e in m2:
        x = d.get(v, 0) - e
        if x < 0:
            return None
        if x:
            d[v] = x
        else:
            del d[v]
    return tuple(sorted(d.items()))


def _mkey(m):
    # graded lexicographic order
    return (sum(e for _, e in m), m)


# ----------------------------------------------------------------------------------------
class _PointModel:
    """a concrete assignment of the atoms standing in for a solver model (counterexample found by evaluation)"""

    def __init__(self, values):
        self.values = values

    def eval(self, v, model_completion=True):
        return z3.IntVal(self.values.get(v.decl().name(), 0))

    def __getitem__(self, v):
        return self.eval(v)


class RE:
    """ring element num/den; num, den are (z3 Int term | python int, Poly)"""
    __slots__ = ("n", "d", "pn", "pd")

    def __init__(self, n, pn, d=1, pd=None):
        self.n = n
        self.d = d
        self.pn = pn
        self.pd = pd

    def __repr__(self):
        return "RE(%s%s)" % (str(self.n)[:80], "" if self.pd is None else "/...")


class Ring:
    """the commutative ring F_q[atoms] (atoms are free indeterminates)"""

    def __init__(self, q, name="R", timeout_ms=60000):
        self.q = q
        self.name = name
        self.vars = {}
        self.solver = z3.Solver()
        self.solver.set("timeout", timeout_ms)
        self.queries = 0
        self.solver_time = 0.0
        self.log = []
        self.ZERO = self.const(0)
        self.ONE = self.const(1)

    # ---- construction
    def const(self, c):
        c %= self.q
        return RE(c, Poly.const(c, self.q))

    def var(self, name):
        if name not in self.vars:
            self.vars[name] = z3.Int(name)
        return RE(self.vars[name], Poly.var(name, self.q))

    def _mk(self, n, pn, d=1, pd=None):
        if pd is not None and pd.is_const() and not pd.is_zero() and is_conc(d):
            # constant denominator: fold
            inv = pow(d, -1, self.q)
            return self._mk(self._zmul(n, inv), pn.scale(inv))
        if is_conc(n):
            n %= self.q
        return RE(n, pn, d, pd)

    @staticmethod
    def _zmul(a, b):
        if is_conc(a) and is_conc(b):
            return a * b
        if is_conc(a):
            if a == 0:
                return 0
            if a == 1:
                return b
        if is_conc(b):
            if b == 0:
                return 0
            if b == 1:
                return a
        return a * b

    @staticmethod
    def _zadd(a, b):
        if is_conc(a) and a == 0:
            return b
        if is_conc(b) and b == 0:
            return a
        return a + b

    def add(self, a, b):
        if a.pd is None and b.pd is None:
            return self._mk(self._zadd(a.n, b.n), a.pn + b.pn)
        if a.pd is not None and b.pd is not None and a.d is b.d:
            return self._mk(self._zadd(a.n, b.n), a.pn + b.pn, a.d, a.pd)
        ad, apd = (a.d, a.pd) if a.pd is not None else (1, Poly.const(1, self.q))
        bd, bpd = (b.d, b.pd) if b.pd is not None else (1, Poly.const(1, self.q))
        n = self._zadd(self._zmul(a.n, bd), self._zmul(b.n, ad))
        return self._mk(n, a.pn * bpd + b.pn * apd, self._zmul(ad, bd), apd * bpd)

    def neg(self, a):
        n = -a.n
        return self._mk(n, -a.pn, a.d, a.pd)

    def sub(self, a, b):
        return self.add(a, self.neg(b))

    def mul(self, a, b):
        n = self._zmul(a.n, b.n)
        if a.pd is None and b.pd is None:
            return self._mk(n, a.pn * b.pn)
        ad, apd = (a.d, a.pd) if a.pd is not None else (1, Poly.const(1, self.q))
        bd, bpd = (b.d, b.pd) if b.pd is not None else (1, Poly.const(1, self.q))
        return self._mk(n, a.pn * b.pn, self._zmul(ad, bd), apd * bpd)

    def scale(self, a, c):
        return self.mul(a, self.const(c))

    def inv_nonzero(self, a):
        """1/a for an element known to be non-zero"""
        if a.pd is None:
            return self._mk(1, Poly.const(1, self.q), a.n, a.pn)
        return self._mk(a.d, a.pd, a.n, a.pn)

    def pow(self, a, e):
        r = self.ONE
        for bit in bin(e)[2:]:
            r = self.mul(r, r)
            if bit == "1":
                r = self.mul(r, a)
        return r

    # ---- decisions (the solver is the arbiter)
    def _num_diff(self, a, b):
        if a.pd is None and b.pd is None:
            return (a.n - b.n), (a.pn - b.pn)
        ad, apd = (a.d, a.pd) if a.pd is not None else (1, Poly.const(1, self.q))
        bd, bpd = (b.d, b.pd) if b.pd is not None else (1, Poly.const(1, self.q))
        return self._zmul(a.n, bd) - self._zmul(b.n, ad), a.pn * bpd - b.pn * apd

    def prove_zero_term(self, n, label=""):
        """True iff z3 proves n == 0 (mod q) for all integer values of the atoms; returns (verdict, model)"""
        t0 = time.time()
        self.queries += 1
        if is_conc(n):
            ok = (n % self.q == 0)
            self.log.append((label, "ground", ok, 0.0))
            return ok, None
        s = self.solver
        s.push()
        try:
            s.add(n % self.q != 0)
            r = s.check()
            mdl = s.model() if r == z3.sat else None
        finally:
            s.pop()
        dt = time.time() - t0
        self.solver_time += dt
        self.log.append((label, str(r), r == z3.unsat, dt))
        if r == z3.unknown:
            # the solver gave up: a polynomial that is not identically zero is non-zero at almost every point, so a few random evaluations
            # either produce a concrete counterexample (a refutation needs no solver) or leave the identity undecided
            pt = self._refute_by_evaluation(n)
            if pt is not None:
                self.log.append((label, "refuted-by-evaluation", False, 0.0))
                return False, pt
            raise ExecError("solver", "z3 returned unknown on ring identity %s" % label)
        return r == z3.unsat, mdl

    def _refute_by_evaluation(self, n, tries=4):
        import random
        rnd = random.Random(1)
        vs = list(self.vars.values())
        for _ in range(tries):
            asg = [(v, z3.IntVal(rnd.randrange(self.q))) for v in vs]
            val = z3.simplify(z3.substitute(n, *asg)) if asg else z3.simplify(n)
            if z3.is_int_value(val) and val.as_long() % self.q != 0:
                return _PointModel({v.decl().name(): a.as_long() for v, a in asg})
        return None

    def is_zero(self, a, label=""):
        """decides 'a == 0 identically in F_q[atoms]' -> (bool, model)"""
        ok, mdl = self.prove_zero_term(a.n, label)
        if ok != a.pn.is_zero():
            # helper and solver disagree: never trust the helper
            raise ExecError("solver", "helper polynomial and solver disagree on %s (solver says zero=%s)" % (label, ok))
        return ok, mdl

    def equal(self, a, b, label=""):
        n, pn = self._num_diff(a, b)
        ok, mdl = self.prove_zero_term(n, label)
        if ok != pn.is_zero():
            raise ExecError("solver", "helper polynomial and solver disagree on %s (solver says equal=%s)" % (label, ok))
        return ok, mdl

    def factor_certificate(self, a, nonzero, label=""):
        """Try to show a.num = c * prod(h_i^k_i) with c a non-zero constant and h_i from `nonzero` (list of RE
        with den 1).  The decomposition is found by trial division on the helper polynomials and then *checked by
        the solver* as a polynomial identity.  Returns True if certified non-zero."""
        p = a.pn
        if p.is_zero():
            return False
        term = 1
        used = []
        for h in nonzero:
            if h.pn.is_const():
                continue
            while True:
                qd = p.divide_exact(h.pn)
                if qd is None:
                    break
                p = qd
                term = self._zmul(term, h.n)
                used.append(h)
        if not p.is_const() or p.is_zero():
            return False
        c = p.const_value()
        ok, _ = self.prove_zero_term(a.n - self._zmul(c, term), label + ":factor-cert")
        return ok

    def model_point(self, mdl):
        """field assignment from a z3 model (values reduced mod q), for replay"""
        env = {}
        for name, v in self.vars.items():
            val = mdl.eval(v, model_completion=True)
            env[name] = val.as_long() % self.q
        return env


# ----------------------------------------------------------------------------------------
class RingOracle:
    """decides abstract predicates over ring elements for one case of a harness"""

    def __init__(self, ring, nonzero=(), zero_vars=()):
        self.ring = ring
        self.nonzero = list(nonzero)    # RE known non-zero in this case
        self.undecided = []
        self.allow_fork = False
        self.fallback_generic = True
        self.unjustified = []
        self.decisions = []

    def same_atom(self, a, b):
        return a[0] == b[0] and all(x is y for x, y in zip(a[1:], b[1:]))

    def decide(self, atom, path):
        kind = atom[0]
        R = self.ring
        if kind == "iszero":
            e = atom[1]
        elif kind == "eq":
            e = R.sub(atom[1], atom[2])
            if atom[1].pd is not None or atom[2].pd is not None:
                n, pn = R._num_diff(atom[1], atom[2])
                e = RE(n, pn)
        else:
            raise ExecError("unsupported", "abstract predicate %r" % (kind,))
        if e.pd is not None:
            e = RE(e.n, e.pn)
        z, _ = R.is_zero(e, "branch")
        if z:
            self.decisions.append((kind, True, "identity"))
            return True
        if R.factor_certificate(e, self.nonzero, "branch"):
            self.decisions.append((kind, False, "factor-certificate"))
            return False
        if e.pn.is_const():
            self.decisions.append((kind, False, "non-zero constant"))
            return False
        self.undecided.append(atom)
        if self.allow_fork:
            return None
        if self.fallback_generic:
            # proceed as for a generic point; a pass under this assumption is reported as inconclusive, a failure
            # is reported only if it reproduces natively
            self.unjustified.append(atom)
            self.nonzero.append(e)
            return False
        raise ExecError("undecided-branch", "branch on %s of a ring expression that is neither identically zero nor "
                        "certified non-zero by the case hypotheses" % kind)

    def assume(self, atom, truth, path):
        pass


# ----------------------------------------------------------------------------------------
# memory access helpers for abstract ring cells
# ----------------------------------------------------------------------------------------
def read_elem(I, p, size, decode_raw):
    """read one abstract element of `size` bytes at pointer p; raw concrete bytes (constants in Montgomery form)
    are decoded with decode_raw(int) -> RE"""
    if not isinstance(p, Ptr) or p.obj is None:
        raise ExecError("unsupported", "ring operand %r" % (p,))
    I._check_access(p, size, 1, False)
    if not is_conc(p.off):
        p = Ptr(p.obj, I.concretize(p.off, 64))
    c = p.obj.cells.get(p.off)
    if c is not None and c[0] == size and not is_conc(c[1]) and not isinstance(c[1], z3.ExprRef):
        return c[1]
    v = I.load_bytes(p.obj, p.off, size)
    if is_conc(v):
        return decode_raw(v)
    raise ExecError("abstract-bytes", "ring operand with symbolic raw bytes at %r" % (p,))


def write_elem(I, p, size, val):
    I._check_access(p, size, 1, True)
    if not is_conc(p.off):
        raise ExecError("unsupported", "ring result at symbolic offset")
    I.store_cell(p.obj, p.off, size, val)
