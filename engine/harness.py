"""Harness helpers shared by the algebraic checks (C04, C05, C18, C01...)."""
import z3

from . import eir, dom_ring, tower
from .eir import Ptr, ExecError, is_conc
from .framework import Violation, Inconclusive
from .tower import Tower, TowerMem, SIZES, Q


class TowerHarness:
    def __init__(self, prog, atom_level=0, intercept_levels=(0,), timeout_ms=60000, const_hook=None):
        self.prog = prog
        self.ring = dom_ring.Ring(Q, timeout_ms=timeout_ms)
        self.T = Tower(self.ring, atom_level)
        self.I = eir.Interp(prog)
        self.I.solver.set("timeout", timeout_ms)
        self.tm = TowerMem(self.I, self.T, const_hook)
        for k in intercept_levels:
            tower.install_level(self.I, self.tm, k)
        self.oracle = dom_ring.RingOracle(self.ring)
        self.I.oracle = self.oracle
        self.functions = []
        self.I.memcmp_hook = self._memcmp

    def _memcmp(self, a, b, n):
        """memcmp / bcmp over abstract field elements: the stored (Montgomery) representative is canonical (C02), so two elements have equal
        bytes exactly when they are equal; a comparison that covers whole base-field elements is decided on the values, anything else is declined"""
        S0 = SIZES[0]
        if n % S0 != 0 or not (is_conc(a.off) and is_conc(b.off)):
            return None
        cond = None
        for k in range(n // S0):
            pa, pb = Ptr(a.obj, a.off + k * S0), Ptr(b.obj, b.off + k * S0)
            try:
                va, vb = self.tm.read(pa, 0), self.tm.read(pb, 0)
            except ExecError:
                return None
            c = eir.ACond("atom", ("eq", va, vb))
            cond = c if cond is None else eir.ACond("and", [cond, c])
        return 0 if self.I.branch(cond) else 1

    def fn(self, pattern):
        name = self.prog.find1(pattern)
        self.functions.append(self.prog.demangled[name].replace("embedded_pairing::", "")[:160])
        return name

    def run(self, fname, make_args, max_paths=256):
        """make_args() -> (args, readback) is called afresh for every path (state is rebuilt by replay);
        readback() returns whatever the harness wants from memory after the call.  Yields (path, ret, readback())"""
        out = []

        def once():
            args, readback = make_args()
            ret = self.I.call_named(fname, args)
            if isinstance(ret, (eir.ACond, eir.ZextCond)):
                ret = int(self.I.branch(ret))
            return ret, readback()
        for path, (ret, rb) in self.I.explore(once, max_paths):
            out.append((path, ret, rb))
        if not out:
            raise Inconclusive("no feasible path through %s" % fname)
        return out

    def require_justified(self):
        if self.oracle.unjustified:
            raise Inconclusive("%d branch(es) on ring expressions were neither identities nor certified non-zero by the case "
                               "hypotheses (executed as for a generic point)" % len(self.oracle.unjustified))

    def stats(self):
        return {"queries": self.ring.queries + getattr(self.I, "vc_count", 0), "solver_s": self.ring.solver_time,
                "functions": self.functions}

    def counterexample(self, mdl, extra=None):
        env = self.ring.model_point(mdl) if mdl is not None else {}
        ce = {"assignment": {k: hex(v) for k, v in sorted(env.items())}}
        if extra:
            ce.update(extra)
        return ce


def flatten_names(T, level, name):
    if level == T.al:
        return [name]
    out = []
    for i in range(tower.ARITY[level]):
        out += flatten_names(T, level - 1, "%s_%d" % (name, i))
    return out
