"""Obligations for the AArch64 word-level kernels (C03), E-ASM front end engine/easm_a64.py.

Every routine is proved equal to the SAME integer specification as the x86-64 and the portable back ends (engine/wordspec.py):
  bigint_384_add/subtract/multiply2 : wordspec.simple_spec (result and returned carry/borrow/shifted-out bit)
  bigint_768_multiply/square        : res = sum_{i,j} a_i b_j 2^(64(i+j)) over opaque word products
  fpbase_384_montgomery_reduce      : a < p*2^384:  T*2^384 = a + U*p and T < 2p at the first compare; res = T >= p ? T-p : T
  fpbase_384_multiply/square (fused): stage 1, up to the first multiplication by inv: the twelve words handed to the reduction are the
                                      768-bit product (same identity as bigint_768_multiply); stage 2: the same Montgomery obligation
                                      from an arbitrary 768-bit value <= (p-1)^2; stage 3: final subtraction.  Hence res*2^384 = a*b + U*p
                                      and res < p for all a, b < p.
(The AArch64 back end has no fpbase_384_add/subtract/multiply2 routines: they are commented out in bigint.s and the headers route those
operations through the portable C++, which calls the bigint_384 kernels above.)
There is no AArch64 hardware or emulator in the sandbox.  A failed VC is therefore confirmed in the interpreter's *concrete mode* (the same
step function on constant words) against python big-integer arithmetic, on the solver's model and on a boundary/random battery;
only an input that reproduces there is reported as a violation (`replay-kind=interpreter`), otherwise the obligation is inconclusive.
"""
import os
import random
import z3

from .eir import ExecError, MemViolation, Ptr, Obj
from .framework import Violation, Inconclusive
from .dom_lin import LinCtx, LV
from .easm_a64 import A64
from .wordspec import Q, QINV64, R384, words_of, read_words, lin_sum, model_inputs, simple_spec, nia_model

PFX = "embedded_pairing_core_arch_aarch64_"
# kind: (words of a, words of b or 0, result words, takes (p, inv), returns a word)
KINDS = {
    "bigint_384_add": (6, 6, 6, False, True), "bigint_384_subtract": (6, 6, 6, False, True), "bigint_384_multiply2": (6, 0, 6, False, True),
    "bigint_768_multiply": (6, 6, 12, False, False), "bigint_768_square": (6, 0, 12, False, False),
    "fpbase_384_montgomery_reduce": (12, 0, 6, True, False), "fpbase_384_multiply": (6, 6, 6, True, False), "fpbase_384_square": (6, 0, 6, True, False),
}
ALIASES = {"bigint_384_add": (0, 1, 2, 3), "bigint_384_subtract": (0, 1, 2, 3), "bigint_384_multiply2": (0, 1), "bigint_768_multiply": (0, 3),
           "bigint_768_square": (0,), "fpbase_384_montgomery_reduce": (0,), "fpbase_384_multiply": (0, 1, 2, 3), "fpbase_384_square": (0, 1)}


def reference(kind, a, b):
    """python big-integer definition: (result, returned word or None)"""
    if kind == "bigint_384_add":
        return (a + b) % R384, (a + b) >> 384
    if kind == "bigint_384_subtract":
        return (a - b) % R384, int(a < b)
    if kind == "bigint_384_multiply2":
        return (2 * a) % R384, (2 * a) >> 384
    if kind == "bigint_768_multiply":
        return a * b, None
    if kind == "bigint_768_square":
        return a * a, None
    if kind == "fpbase_384_montgomery_reduce":
        return a * pow(R384, -1, Q) % Q, None
    if kind == "fpbase_384_multiply":
        return a * b * pow(R384, -1, Q) % Q, None
    if kind == "fpbase_384_square":
        return a * a * pow(R384, -1, Q) % Q, None
    raise KeyError(kind)


def make_call(L, kind, alias, aw, bw):
    """objects and AAPCS64 argument list of one call.  alias: 0 none, 1 res is a, 2 res is b, 3 a and b are one object (and, where the
    sizes agree, res too).  Every operand that is not the result is read-only."""
    na, nb, nres, has_p, _ = KINDS[kind]
    oa = Obj("a", 8 * na, "arg", 16)
    oa.cells = {8 * i: (8, w) for i, w in enumerate(aw)}
    ob = None
    if nb:
        ob = oa if alias == 3 else Obj("b", 8 * nb, "arg", 16)
        ob.cells = {8 * i: (8, w) for i, w in enumerate(aw if alias == 3 else bw)}
    res_is = {1: oa, 2: ob, 3: oa}.get(alias) if nres == na else None
    ores = res_is if res_is is not None else Obj("res", 8 * nres, "arg", 16)
    for o in (oa, ob):
        if o is not None and o is not ores:
            o.const = True
    args, objs = [Ptr(ores, 0), Ptr(oa, 0)] + ([Ptr(ob, 0)] if nb else []), [o for o in (oa, ob, ores) if o is not None]
    if has_p:
        op = Obj("p", 48, "arg", 16, True)
        op.cells = {8 * i: (8, L.const(w)) for i, w in enumerate(words_of(Q, 6))}
        args += [Ptr(op, 0), L.const(QINV64)]
        objs.append(op)
    return ores, args, objs


def out_words(ores, n):
    ws = read_words(ores, n)
    for i, w in enumerate(ws):
        if not isinstance(w, LV):
            raise MemViolation("ptr-as-data", "result word %d holds %r, not a data word" % (i, w))
    return ws


def concrete(prog, kind, alias, a, b, probe=None):
    """concrete mode of the interpreter: (result, returned word or None)"""
    na, nb, nres, _, has_ret = KINDS[kind]
    L = LinCtx(1000)
    X = A64(prog, L)
    X.record_mul_by = QINV64
    ores, args, objs = make_call(L, kind, alias, [L.const(w) for w in words_of(a, na)], [L.const(w) for w in words_of(b, nb)])
    x0 = X.run(PFX + kind, args, objs)
    if L.queries or X.queries or len(L.names):
        raise ExecError("internal", "concrete mode consulted the solver")
    out = out_words(ores, nres)
    if probe is not None:
        probe.append(X)
    if has_ret and not isinstance(x0, LV):
        return sum(w.c << (64 * i) for i, w in enumerate(out)), repr(x0)
    return sum(w.c << (64 * i) for i, w in enumerate(out)), (x0.c if has_ret else None)


def battery(kind, rng, n_random=24):
    """boundary and seeded random operand pairs inside the routine's domain"""
    na, nb, _, has_p, _ = KINDS[kind]
    ones = R384 - 1
    if kind == "fpbase_384_montgomery_reduce":
        top = Q >> 320
        ts = [Q - 1, Q, Q + 1, top << 320, (top << 320) + 5, (top << 320) | ((1 << 320) - 1), 2 * Q - 1, (top + 1) << 320, Q - (1 << 64), 0, 1,
              Q + (1 << 64), Q + (1 << 128) - 1, Q - (1 << 128)]
        pts = [(t * R384 if t < Q else t * R384 - (R384 - 1) * Q, 0) for t in ts]          # inputs whose unreduced value T is t
        pts += [(Q * R384 - 1, 0), ((Q - 1) ** 2, 0), (R384 - 1, 0), ((1 << 64) - 1, 0)]
        return pts + [(rng.randrange(Q * R384), 0) for _ in range(n_random)]
    if has_p:
        base = [Q - 1, Q - 2, (Q - 1) // 2, (Q + 1) // 2, 0, 1, Q - (1 << 64), (Q >> 320) << 320, (1 << 380) - 1, (1 << 64) - 1, R384 % Q, (R384 * R384) % Q]
        dom = Q
    else:
        base = [ones, ((1 << 128) - 1) << 256, 1 << 383, (1 << 383) | 1, ones ^ 1, (1 << 64) - 1, ((1 << 64) - 1) << 64, 0, 1, ones ^ (((1 << 64) - 1) << 128)]
        dom = R384
    pts = [(x, y) for x in base for y in (base if nb else [0])]
    return pts + [(rng.randrange(dom) | (0 if has_p else 3 << 382), rng.randrange(dom) | (0 if has_p else 3 << 382)) for _ in range(n_random)]


def selftest(prog, kind, n_random=24):
    """interpreter self-test: concrete mode against python big integers on the battery, every alias pattern"""
    rng = random.Random(int(os.environ.get("VERIF_SEED", "0")) + 11)
    n = 0
    pts = battery(kind, rng, n_random)
    for alias in ALIASES[kind]:
        for a, b in pts:
            if alias == 3:
                b = a
            got, want = concrete(prog, kind, alias, a, b), reference(kind, a, b)
            n += 1
            if got != want:
                raise _violation("a64:selftest:%s" % kind, "concrete interpretation of %s%s (alias pattern %d) differs from python big-integer "
                                 "arithmetic: the routine, or the instruction semantics of engine/easm_a64.py, is wrong" % (PFX, kind, alias),
                                 kind, alias, a, b, got, want)
    return {"queries": 0, "paths": n, "functions": [PFX + kind],
            "sample": "%s: %d concrete executions (boundary + seeded random operands, alias patterns %s) equal python big-integer arithmetic; "
                      "no solver query (ground comparison)" % (kind, n, list(ALIASES[kind]))}


def _violation(key, detail, kind, alias, a, b, got, want):
    ce = {"backend": "aarch64", "routine": PFX + kind, "alias": alias, "a": hex(a), "b": hex(b), "replay-kind": "interpreter",
          "interpreter_result": [hex(got[0]), got[1]], "reference": [hex(want[0]), want[1]]}
    v = Violation(key, detail + " [replay-kind=interpreter: a=%#x b=%#x gives %#x ret=%s, reference %#x ret=%s]" % (a, b, got[0], got[1], want[0], want[1]), ce)
    v.info = {"replayed": True}
    return v


def confirm(prog, kind, alias, key, detail, cands, verdict=False, n_random=60):
    """a VC failed (verdict False: the solver has a counter-model) or got no verdict in time (None): look for an input that gives a wrong
    result in concrete mode - the model first, then the battery.  Raises Violation if one is found, Inconclusive otherwise."""
    rng = random.Random(int(os.environ.get("VERIF_SEED", "0")) + 13)
    nb = KINDS[kind][1]
    for a, b in list(cands) + battery(kind, rng, n_random):
        b = a if (alias == 3 or not nb) and kind != "fpbase_384_montgomery_reduce" else b
        got, want = concrete(prog, kind, alias, a, b), reference(kind, a, b)
        if got != want:
            raise _violation(key, detail, kind, alias, a, b, got, want)
    raise Inconclusive("%s: %s - %s, and neither the solver's model nor the operand battery gives a wrong result in the interpreter's concrete mode" % (
        key, detail, "the solver has a counter-model of this VC" if verdict is False else "the solver gave no verdict in time"))


def settle(ok, prog, kind, alias, key, detail, cands=lambda: []):
    if not ok:
        confirm(prog, kind, alias, key, detail, cands() if ok is False else [], ok)


def precheck(X, prog, kind, alias, key, detail):
    """carries were dropped that the solver could not prove zero: try the battery before spending solver time on the main VC"""
    if X.lost_carries:
        try:
            confirm(prog, kind, alias, key, detail + _lost(X), [], None, 24)
        except Inconclusive:
            pass


def _sym_call(prog, kind, alias, timeout_ms):
    na, nb, nres, has_p, _ = KINDS[kind]
    L = LinCtx(timeout_ms)
    X = A64(prog, L, timeout_ms)
    av = [L.var("a%d" % i) for i in range(na)]
    bv = av if (alias == 3 or not nb) else [L.var("b%d" % i) for i in range(nb)]
    ores, args, objs = make_call(L, kind, alias, av, bv)
    return L, X, av, bv, ores, args, objs


def witness(L, env, what):
    """vacuity guard: extends the concrete values `env` of the free variables of L to all its variables (wrap quotients by their defining
    division, opaque products by multiplication) and has z3 confirm that every constraint recorded in L - domain assumptions, side
    conditions, lemmas added after being proved - holds under it, i.e. that the constraint set the VCs were proved from is satisfiable"""
    quot = {list(q.t)[0]: ky for ky, (r, q) in L.wraps.items() if q.t}
    for i, name in enumerate(L.names):
        if name in env:
            continue
        if i in quot:
            (c, terms), bits = quot[i]
            env[name] = (c + sum(k * env[L.names[v]] for v, k in terms)) >> bits
        elif isinstance(L.kind[i], tuple):
            env[name] = L.evaluate(L.kind[i][1], env) * L.evaluate(L.kind[i][2], env)
        else:
            raise Inconclusive("vacuity guard: variable %s of the %s context has no definition" % (name, what))
    s = z3.Solver()
    s.set("timeout", 20000)
    s.add(*L.solver.assertions())
    s.add(*[L.zv[i] == env[n] for i, n in enumerate(L.names)])
    if s.check() != z3.sat:
        raise Inconclusive("vacuity guard: the constraints of the %s context do not hold on a concrete execution (%s)" % (what, s.check()))
    return env


def _inputs_env(av, bv, a, b):
    env = {"a%d" % i: w for i, w in enumerate(words_of(a, len(av)))}
    if bv is not av:
        env.update({"b%d" % i: w for i, w in enumerate(words_of(b, len(bv)))})
    return env


# ---------------------------------------------------------------------------------------------------------------
def a64_simple(prog, kind, alias, timeout_ms=60000):
    L, X, av, bv, ores, args, objs = _sym_call(prog, kind, alias, timeout_ms)
    zA, zB = L.z(lin_sum(L, av)), L.z(lin_sum(L, bv))
    key = "a64:%s:alias=%d" % (kind, alias)
    npaths = 0
    for pc, x0 in X.explore(PFX + kind, args, objs):
        npaths += 1
        if not isinstance(x0, LV):
            raise Violation(key + ":ret", "%s%s leaves no integer return value in x0 (%r)" % (PFX, kind, x0), {"backend": "aarch64", "routine": PFX + kind})
        O = L.z(lin_sum(L, out_words(ores, 6)))
        vc = z3.Implies(z3.And(*pc) if pc else z3.BoolVal(True), simple_spec(kind, zA, zB, O, L.z(x0)))
        def model():
            env = L.model_for(z3.Not(vc)) or {}
            return [(model_inputs(L, env, "a", 6), model_inputs(L, env, "a" if bv is av else "b", 6))]
        settle(L.prove(vc, kind), prog, kind, alias, key, "%s%s differs from the specification (alias pattern %d)" % (PFX, kind, alias), model)
    witness(L, _inputs_env(av, bv, R384 - 1, R384 - 2), "only")
    return {"queries": L.queries + X.queries + 1, "solver_s": L.solver_time, "paths": npaths, "functions": [PFX + kind],
            "sample": "%s%s alias=%d: %d path(s), %d instructions, linear-integer VC (result and returned bit) for all 384-bit operands; "
                      "%d unproved dropped carries; constraint set satisfiable on a concrete execution" % (PFX, kind, alias, npaths, X.steps, len(X.lost_carries))}


def _product_form(L, av, bv):
    want = L.const(0)
    for i in range(6):
        for j in range(6):
            want = L.add(want, L.scale(L.mul(av[i], bv[j]), 1 << (64 * (i + j))))
    return want


def _product_model(L, ident, same, mod=None):
    """inputs from a counter-model in which the opaque word products really are products if z3 finds one, else from the linear model"""
    env = nia_model(L, z3.Not(ident), 10000) or L.model_for(z3.Not(ident)) or {}
    a, b = model_inputs(L, env, "a", 6), model_inputs(L, env, "a" if same else "b", 6)
    return [(a % mod, b % mod) if mod else (a, b)]


def _lost(X):
    return "; carries dropped without being provably zero: %s" % "; ".join("%#x %s" % c for c in X.lost_carries) if X.lost_carries else ""


def a64_multiply(prog, kind, alias, timeout_ms=60000):
    L, X, av, bv, ores, args, objs = _sym_call(prog, kind, alias, timeout_ms)
    X.run(PFX + kind, args, objs)
    key, detail = "a64:%s:alias=%d" % (kind, alias), "%s%s: result is not sum a_i*b_j*2^(64(i+j))" % (PFX, kind)
    precheck(X, prog, kind, alias, key, detail)
    ident = L.eq(lin_sum(L, out_words(ores, 12)), _product_form(L, av, bv))
    settle(L.prove(ident, "product identity"), prog, kind, alias, key, detail + _lost(X), lambda: _product_model(L, ident, bv is av))
    witness(L, _inputs_env(av, bv, R384 - 1, R384 - 2), "only")
    return {"queries": L.queries + X.queries + 1, "solver_s": L.solver_time, "paths": 1, "functions": [PFX + kind],
            "sample": "%s%s%s: %d instructions, %d dropped carries proved zero (%d unproved), identity over %d opaque word products; "
                      "constraint set satisfiable on a concrete execution" % (
                PFX, kind, " (a and b the same object)" if alias == 3 else "", X.steps, X.proved_carries, len(X.lost_carries), len(L.products))}


# ---------------------------------------------------------------------------------------------------------------
def product_bound_lemma():
    """0 <= a, b <= p-1  ==>  a*b <= (p-1)^2   (the only non-linear fact used; decided by z3's non-linear arithmetic on every run)"""
    a, b = z3.Ints("a b")
    s = z3.Solver()
    s.set("timeout", 20000)
    s.add(a >= 0, b >= 0, a <= Q - 1, b <= Q - 1, a * b > (Q - 1) * (Q - 1))
    return s.check() == z3.unsat


def fused_preimage(T):
    """a, b < p whose fused product reaches the unreduced value T at the first compare (possible for T < p(1+p/2^384)): any U in [0,2^384)
    with N = T*2^384 - U*p >= 0 is the Montgomery quotient of N, so pick a and solve a | N for U.  Used only to turn a counter-model of the
    final-subtraction VC into replayable inputs."""
    for a in (Q - 1, Q - 2, Q - 3, (Q - 1) // 2 * 2 - 5):
        U = T * R384 * pow(Q, -1, a) % a
        while U < R384:
            N = T * R384 - U * Q
            if 0 <= N and N // a < Q:
                return [(a, N // a)]
            U += a
    return []


def _definition(L1, L2, defs, t):
    """the definition (form of the context before the cut) of a word of the context after the cut"""
    if t.is_const():
        return L1.const(t.c)
    name = L2.names[list(t.t)[0]] if (len(t.t) == 1 and t.c == 0 and list(t.t.values()) == [1]) else None
    return defs[name][1] if name in defs else None


def a64_montgomery(prog, kind, alias=0, timeout_ms=60000):
    """montgomery_reduce, and the fused multiply / square (product stage, reduction stage, final subtraction)"""
    fused = kind != "fpbase_384_montgomery_reduce"
    key, sym = "a64:%s:alias=%d" % (kind, alias), PFX + kind
    L, X, av, bv, ores, args, objs = _sym_call(prog, kind, alias, timeout_ms)
    X.cut_at_compare = True
    X.record_mul_by = QINV64
    queries = 0
    handed = {}
    if not fused:
        A = lin_sum(L, av)
        L.solver.add(L.z(A) < Q * R384)          # documented domain of the reduction input
    else:
        if not product_bound_lemma():
            raise Inconclusive("z3 did not decide the product bound lemma")
        queries += 1
        L.solver.add(L.z(lin_sum(L, av)) < Q, L.z(lin_sum(L, bv)) < Q)
        X.cut_at_mul_by = QINV64
        # untrusted guess, checked by the solver in stage 1: the registers that hold the twelve product words when the reduction starts
        a0, b0 = 0x123456789abcdef0fedcba9876543210 ** 3 % Q, 0x0f1e2d3c4b5a69788796a5b4c3d2e1f0 ** 3 % Q
        b0 = a0 if bv is av else b0
        probe = []
        concrete(prog, kind, alias, a0, b0, probe)
        regs0 = probe[0].first_mul_regs or {}
        guess = []
        for w in words_of(a0 * b0, 12):
            hit = [r for r, v in regs0.items() if isinstance(v, LV) and v.c == w]
            guess.append(hit[0] if len(hit) == 1 else None)
        if None in guess:
            confirm(prog, kind, alias, key + ":product", "%s: the words of a*b are not in registers when the reduction starts (concrete probe)" % sym, [(a0, b0)], None)

        def on_cut(X_, cut):
            """stage boundary: the value handed to the reduction is only known to be <= (p-1)^2 (product bound lemma)"""
            if len(X_.cuts) != 1:
                return
            ws = [X_.regs.get(g) for g in guess]
            if not all(isinstance(w, LV) for w in ws):
                raise Inconclusive("the registers that held the product words on the concrete probe hold no words on the symbolic run")
            handed["after"] = lin_sum(X_.L, ws)
            handed["before"] = [_definition(cut["L"], X_.L, cut["defs"], w) for w in ws]
            X_.L.solver.add(X_.L.z(handed["after"]) <= (Q - 1) * (Q - 1))
        X.on_cut = on_cut

    paths = [(pc, out_words(ores, 6)) for pc, _ in X.explore(sym, args, objs)]
    if [c["why"] for c in X.cuts] != (["first multiplication by the constant %#x" % QINV64] if fused else []) + ["first compare"]:
        confirm(prog, kind, alias, key + ":shape", "%s: expected cut points (first multiplication by inv, first compare) not reached" % sym, [])
    precheck(X, prog, kind, alias, key + ":identity", "%s: wrong result" % sym)
    cut = X.cuts[-1]
    Lm, Ls, defs = cut["L"], X.L, cut["defs"]          # Lm: context of the reduction prefix; Ls: context of the compare/subtract suffix
    if fused:
        # stage 1 (context L): the words handed to the reduction are the 768-bit product of a and b
        ident1 = L.eq(lin_sum(L, handed["before"]), _product_form(L, av, bv))
        settle(L.prove(ident1, "product identity"), prog, kind, alias, key + ":product",
               "%s: the 768-bit value handed to the reduction is not sum a_i*b_j*2^(64(i+j))%s" % (sym, _lost(X)), lambda: _product_model(L, ident1, bv is av, Q))
        A = handed["after"]
    # the no-subtract path returns the unreduced words T unchanged: this identifies them among the havocked variables
    sigma = None
    for pc, out in paths:
        if all(isinstance(w, LV) and not w.is_const() and _definition(Lm, Ls, defs, w) is not None for w in out):
            sigma = out
            break
    if sigma is None:
        confirm(prog, kind, alias, key + ":shape", "%s: no path returns the unreduced words unchanged" % sym, [])
    ims = [lv for stage, lv in X.inv_muls if stage == len(X.cuts) - 1]
    Tl = lin_sum(Lm, [_definition(Lm, Ls, defs, w) for w in sigma])
    ident = Lm.z(Tl) * R384 == Lm.z(A) + Lm.z(lin_sum(Lm, ims)) * Q
    detail = "%s: T*2^384 != a + U*p at the first compare (%d multiplications by inv)" % (sym, len(ims))
    settle(Lm.prove(ident, "montgomery identity") if len(ims) == 6 else False, prog, kind, alias, key + ":identity", detail + _lost(X),
           lambda: [] if fused else [(model_inputs(Lm, Lm.model_for(z3.Not(ident)) or {}, "a", 12), 0)])
    Lm.solver.add(ident)
    settle(Lm.prove(Lm.z(Tl) < 2 * Q, "T < 2p"), prog, kind, alias, key + ":range", "%s: T < 2p does not hold at the first compare%s" % (sym, _lost(X)))
    T2 = Ls.z(lin_sum(Ls, sigma))
    Ls.solver.add(T2 < 2 * Q)
    for pc, out in paths:
        O = Ls.z(lin_sum(Ls, out))
        vc = z3.Implies(z3.And(*pc) if pc else z3.BoolVal(True), z3.If(T2 >= Q, O == T2 - Q, O == T2))
        ok = Ls.prove(vc, "final subtraction")
        if not ok:
            tval = Ls.evaluate(lin_sum(Ls, sigma), Ls.model_for(z3.Not(vc)) or {n: 0 for n in Ls.names}) if ok is False else 0
            settle(ok, prog, kind, alias, key + ":final-subtract", "%s: final conditional subtraction is wrong for the unreduced value T=%#x" % (sym, tval),
                   lambda: (fused_preimage(tval) if bv is not av else []) if fused else [(tval * R384 if tval < Q else tval * R384 - (R384 - 1) * Q, 0)])
    # vacuity guard: every context's constraint set (with the assumptions and proved lemmas added to it) holds on a concrete execution
    env = witness(L, _inputs_env(av, bv, a0, b0) if fused else _inputs_env(av, av, (Q - 1) * R384 + 12345, 0), "first")
    for i, c in enumerate(X.cuts):
        nxt = X.cuts[i + 1]["L"] if i + 1 < len(X.cuts) else Ls
        env = witness(nxt, {n: c["L"].evaluate(v, env) for n, (t, v) in c["defs"].items()}, "post-cut %d" % (i + 1))
    queries += 1 + len(X.cuts)
    ctxs = [L] + [c["L"] for c in X.cuts[1:]] + [Ls]
    return {"queries": queries + X.queries + sum(c.queries for c in ctxs), "solver_s": sum(c.solver_time for c in ctxs), "paths": len(paths), "functions": [sym],
            "sample": "%s alias=%d: %d instructions executed (prefix once, suffix per path), %d carries proved zero (%d unproved), cuts at %s, %d suffix "
                      "paths; %sT*2^384 = A + U*p and T < 2p at the first compare, res = T or T-p on every path; every context's constraint set "
                      "satisfiable on a concrete execution" % (sym, alias, X.steps, X.proved_carries, len(X.lost_carries),
                                                              ", ".join("%#x (%s)" % (c["at"], c["why"]) for c in X.cuts), len(paths),
                                                              "A = a*b (word-product identity) <= (p-1)^2; " if fused else "")}
