"""E-ASM for x86-64: symbolic interpreter over the instruction stream that clang's assembler emits for
src/core/arch/x86_64/*.s (read back through llvm-objdump, so macros are expanded and branch targets resolved).

Two word domains:
  'bv'   registers are python ints / z3 BitVec(64), flags are z3 Bools: exact; conditional jumps fork
  'lin'  registers are dom_lin.LV affine integer forms, CF/OF are carry forms; at the first compare on symbolic
         data the state is *cut*: every symbolic word is replaced by a fresh bit-vector variable (its affine
         definition is kept in `cut_defs`) and execution continues in 'bv'.
Checked on every run: loads inside operand objects, stores inside writable objects or the frame, rsp and
callee-saved registers restored at ret, no read of an undefined flag, no carry silently dropped (a carry that is
overwritten unread must be *proved* zero by the solver, otherwise it is reported in `lost_carries`).
"""
import re
import time
import subprocess
import z3

from .eir import ExecError, MemViolation, PathAbort, Ptr, Obj, is_conc, simp, as_bv
from .dom_lin import LV, LinCtx

M64 = (1 << 64) - 1
CALLEE_SAVED = ["rbx", "rbp", "r12", "r13", "r14", "r15"]
REGS = ["rax", "rbx", "rcx", "rdx", "rsi", "rdi", "rbp", "rsp"] + ["r%d" % i for i in range(8, 16)]
REG32 = {"eax": "rax", "ebx": "rbx", "ecx": "rcx", "edx": "rdx", "esi": "rsi", "edi": "rdi", "ebp": "rbp", "esp": "rsp"}
REG32.update({"r%dd" % i: "r%d" % i for i in range(8, 16)})
REG8 = {"al": "rax", "bl": "rbx", "cl": "rcx", "dl": "rdx"}


class AsmProgram:
    def __init__(self, paths, target=None):
        self.ins = {}        # addr -> (mnemonic, [operands], text)
        self.order = []
        self.sym = {}        # name -> addr
        self.addr_sym = {}
        base = 0
        for p in paths:
            obj = p + ".o" if not p.endswith(".o") else p
            out = subprocess.run(["llvm-objdump-14", "-d", "--no-show-raw-insn", obj], capture_output=True, text=True, check=True).stdout
            top = base
            for line in out.split("\n"):
                m = re.match(r"^([0-9a-f]+) <([^>]+)>:", line)
                if m:
                    a = base + int(m.group(1), 16)
                    self.sym[m.group(2)] = a
                    self.addr_sym.setdefault(a, m.group(2))
                    continue
                m = re.match(r"^\s*([0-9a-f]+):\s+(\S+)\s*(.*)$", line)
                if m:
                    a = base + int(m.group(1), 16)
                    ops = split_ops(m.group(3).strip())
                    self.ins[a] = (m.group(2), ops, line.strip(), base)
                    self.order.append(a)
                    top = max(top, a + 16)
            base = (top + 0xfff) & ~0xfff
        self.next = {}
        for a, b in zip(self.order, self.order[1:]):
            self.next[a] = b


def split_ops(s):
    if not s:
        return []
    s = re.sub(r"\s*<[^>]*>", "", s)
    out = []
    depth = 0
    cur = ""
    for ch in s:
        if ch == "(":
            depth += 1
        elif ch == ")":
            depth -= 1
        if ch == "," and depth == 0:
            out.append(cur.strip())
            cur = ""
        else:
            cur += ch
    if cur.strip():
        out.append(cur.strip())
    return out


def assemble(srcs, workdir, extra=()):
    """assemble each .s with clang's integrated assembler; returns object paths"""
    import os
    objs = []
    for s in srcs:
        o = os.path.join(workdir, os.path.basename(s)[:-2] + ".o")
        r = subprocess.run(["clang-14", "-c"] + list(extra) + [s, "-o", o], capture_output=True, text=True)
        if r.returncode != 0:
            raise RuntimeError("assembler failed on %s: %s" % (s, r.stderr[-2000:]))
        objs.append(o)
    return objs


class UndefFlag:
    def __repr__(self):
        return "undef-flag"


UNDEF = UndefFlag()


class MulFlag:
    """CF / OF after MUL: set iff the high half of the product is non-zero (lazily materialised)"""
    __slots__ = ("hi",)

    def __init__(self, hi):
        self.hi = hi


class X86:
    def __init__(self, prog, mode="bv", lin=None, timeout_ms=20000):
        self.p = prog
        self.mode = mode
        self.lin = lin or (LinCtx(timeout_ms) if mode == "lin" else None)
        self.solver = z3.Solver()
        self.solver.set("timeout", timeout_ms)
        self.assumptions = []
        self.decisions = []
        self.pending = []
        self.reset()
        self.queries = 0

    def reset(self):
        self.regs = {r: None for r in REGS}
        self.flags = {"CF": UNDEF, "OF": UNDEF, "ZF": UNDEF, "SF": UNDEF}
        self.unread = {"CF": False, "OF": False}
        self.lost_carries = []
        self.drop_proof_s = 5
        self.drop_budget_s = 40
        self.drop_spent_s = getattr(self, "drop_spent_s", 0.0)      # per interpreter, not per path
        self.proved_carries = 0
        self.pc = []
        self.idx = 0
        self.cut_defs = {}
        self.cut_done = False
        self.steps = 0
        self.stack = Obj("stack", 4096, "alloca", 16)
        self.regs["rsp"] = Ptr(self.stack, 2048)
        self.stack.cells[2048] = (8, "RETADDR")
        self.init_callee = {}
        self.events = []
        self.fresh_n = 0
        if getattr(self, "lin_prefix", None) is not None:
            self.lin = self.lin_prefix
        if not hasattr(self, "lin2_vars"):
            self.lin2_vars = {}

    # ------------------------------------------------------------------ operands
    def _reg(self, name):
        name = name.lstrip("%")
        if name in self.regs:
            return name, 64
        if name in REG32:
            return REG32[name], 32
        if name in REG8:
            return REG8[name], 8
        raise ExecError("unsupported", "register %" + name)

    def _ea(self, op):
        m = re.fullmatch(r"(-?(?:0x)?[0-9a-f]*)\(%([a-z0-9]+)(?:,%([a-z0-9]+)(?:,(\d+))?)?\)", op)
        if not m:
            raise ExecError("unsupported", "memory operand " + op)
        disp = int(m.group(1), 0) if m.group(1) not in ("", "-") else 0
        base = self.regs[m.group(2)]
        if m.group(3):
            raise ExecError("unsupported", "indexed addressing " + op)
        if not isinstance(base, Ptr):
            raise MemViolation("wild", "memory access through non-pointer register %%%s in %s" % (m.group(2), op))
        return Ptr(base.obj, base.off + disp)

    def read(self, op, bits=64):
        if op.startswith("$"):
            v = int(op[1:], 0)
            return self._const(v & ((1 << bits) - 1))
        if op.startswith("%"):
            r, rb = self._reg(op)
            v = self.regs[r]
            if v is None:
                raise ExecError("uninit", "read of uninitialised register %" + r)
            if rb != 64:
                return self._trunc(v, rb)
            return v
        p = self._ea(op)
        return self.load(p, bits // 8)

    def write(self, op, val, bits=64):
        if op.startswith("%"):
            r, rb = self._reg(op)
            if rb == 32:
                val = self._zext32(val)
            elif rb == 8:
                raise ExecError("unsupported", "8-bit register write")
            self.regs[r] = val
            return
        p = self._ea(op)
        self.store(p, val, bits // 8)

    def load(self, p, size):
        o = p.obj
        if o is None:
            raise MemViolation("null", "load through null")
        if p.off < 0 or p.off + size > o.size:
            raise MemViolation("oob", "load of %d bytes at %s+%d (size %d)" % (size, o.name, p.off, o.size))
        if p.off % size != 0 and o is not self.stack:
            self.events.append(("unaligned-load", o.name, p.off))
        c = o.cells.get(p.off)
        if c is None or c[0] != size:
            raise MemViolation("uninit", "load of uninitialised or partial word %s+%d" % (o.name, p.off))
        return c[1]

    def store(self, p, val, size):
        o = p.obj
        if o is None:
            raise MemViolation("null", "store through null")
        if o.const:
            raise MemViolation("const", "store into read-only operand %s+%d" % (o.name, p.off))
        if p.off < 0 or p.off + size > o.size:
            raise MemViolation("oob", "store of %d bytes at %s+%d (size %d)" % (size, o.name, p.off, o.size))
        for co in [co for co, (cs, _) in o.cells.items() if co < p.off + size and co + cs > p.off and co != p.off]:
            raise ExecError("unsupported", "overlapping store")
        if isinstance(val, tuple) and val and val[0] == "INIT" and o is not self.stack:
            # the caller's value of a callee-saved register (which the routine never computed) is written into an operand or the result: whatever the
            # final value of that word is on this path, it is not a function of the operands unless the word is overwritten later; reported where it
            # is read back (result comparison) would lose the reason, so it is reported here
            raise MemViolation("caller-register-leak", "the caller's %%%s (a callee-saved register the routine did not set) is stored into %s+%d" % (val[1], o.name, p.off))
        o.cells[p.off] = (size, val)
        o.written = True

    # ------------------------------------------------------------------ domain helpers
    def _const(self, v):
        if self.mode == "lin":
            return self.lin.const(v)
        return v

    def _is_lv(self, v):
        return isinstance(v, LV)

    def _trunc(self, v, bits):
        if self.mode == "lin":
            if isinstance(v, LV) and v.is_const():
                return self.lin.const(v.c & ((1 << bits) - 1))
            raise ExecError("unsupported", "sub-register read in lin mode")
        if is_conc(v):
            return v & ((1 << bits) - 1)
        return simp(z3.Extract(bits - 1, 0, v))

    def _zext32(self, v):
        if self.mode == "lin":
            return v
        if is_conc(v):
            return v & 0xffffffff
        if v.size() == 32:
            return simp(z3.ZeroExt(32, v))
        return v

    def fresh_bv(self, prefix="t"):
        self.fresh_n += 1
        return z3.BitVec("%s%d" % (prefix, self.fresh_n), 64)

    def _mul_flag_value(self, mf):
        hi = mf.hi
        if self.mode == "lin":
            L = self.lin
            if isinstance(hi, LV) and hi.is_const():
                return L.const(int(hi.c != 0))
            if hi.lo >= 1:
                return L.const(1)
            i = L.new_var("mulcf%d" % len(L.names), 0, 1, "quot")
            c = LV(0, {i: 1}, 0, 1)
            # c = [hi != 0]:  c <= hi <= c * (2^64 - 1)
            L.solver.add(L.z(c) <= L.z(hi), L.z(hi) <= L.z(c) * M64)
            L.kind[i] = ("ind", hi)
            return c
        if is_conc(hi):
            return int(hi != 0)
        return simp(as_bv(hi, 64) != 0)          # bit-vector mode keeps symbolic flags as Booleans

    # ---- flag discipline
    def _set_flag(self, f, val):
        if f in self.unread and self.unread[f]:
            old = self.flags[f]
            if isinstance(old, LV) and not (old.is_const() and old.c == 0):
                # in a forked child with a hard deadline: z3 does not always honour its time limit on these contexts, and a carry that is NOT
                # provably zero must end up in lost_carries rather than hang the run
                if self.drop_spent_s > self.drop_budget_s:
                    ok = None       # the routine drops carries all over: the remaining ones are recorded without a proof attempt
                else:
                    t_ = time.time()
                    ok = self.lin.prove_zero(old, "dropped " + f, hard_s=self.drop_proof_s)
                    if ok is None:
                        self.drop_spent_s += time.time() - t_
                if ok:
                    self.lin.assume_zero(old, "carry dropped at %#x proved zero" % self.cur)
                    self.proved_carries += 1
                else:
                    self.lost_carries.append((self.cur, self.p.ins[self.cur][2], f))
        self.flags[f] = val
        if f in self.unread:
            self.unread[f] = isinstance(val, LV) and not val.is_const()

    def _get_flag(self, f):
        v = self.flags[f]
        if isinstance(v, MulFlag):
            v = self._mul_flag_value(v)
            for g in ("CF", "OF"):
                if isinstance(self.flags.get(g), MulFlag):
                    self.flags[g] = v
        if v is UNDEF:
            raise ExecError("undef-flag", "read of undefined flag %s at %#x" % (f, self.cur))
        if f in self.unread:
            self.unread[f] = False
        return v

    def _clobber(self, names):
        for f in names:
            if f in self.unread:
                self._set_flag(f, UNDEF)
            else:
                self.flags[f] = UNDEF

    # ---- arithmetic in both domains
    def _addc(self, x, y, cin, setf=("CF", "OF", "ZF", "SF")):
        """returns result; sets flags listed"""
        if isinstance(x, Ptr) or isinstance(y, Ptr):
            p, d = (x, y) if isinstance(x, Ptr) else (y, x)
            dv = d.c if isinstance(d, LV) and d.is_const() else d
            if not is_conc(dv):
                raise ExecError("unsupported", "pointer + symbolic")
            dv = dv - (1 << 64) if dv >> 63 else dv
            self._clobber(setf)
            return Ptr(p.obj, p.off + dv)
        if self.mode == "lin":
            L = self.lin
            full = L.add(L.add(x, y), cin if cin is not None else L.const(0))
            r, k = L.wrap(full, 64, "c")
            r = self._zero_if_multiple(r)
            if k.t and cin is not None and ((y.is_const() and y.c == 0) or (x.is_const() and x.c == 0)):
                # 'adc $0, hi' idiom: the carry into a high product word cannot overflow it; discharge eagerly
                if L.prove_zero(k, "adc-0 carry", 1500):
                    L.assume_zero(k, "carry out of 'adc 0' at %#x proved zero" % self.cur)
                    self.proved_carries += 1
                    k = L.const(0)
            for f in setf:
                if f == "CF":
                    self._set_flag("CF", k)
                elif f == "OF":
                    # signed overflow is impossible when both operands and the exact sum stay below 2^63
                    if x.lo >= 0 and y.lo >= 0 and x.hi < (1 << 63) and y.hi < (1 << 63) and full.hi < (1 << 63):
                        self._set_flag("OF", L.const(0))
                    else:
                        self._set_flag("OF", UNDEF)
                else:
                    self.flags[f] = UNDEF
            return r
        c = cin if cin is not None else 0
        if is_conc(x) and is_conc(y) and is_conc(c):
            full = x + y + int(c)
            r = full & M64
            cf = full >> 64
            sx, sy, sr = x >> 63, y >> 63, r >> 63
            of = int(sx == sy and sr != sx)
            zf, sf = int(r == 0), sr
        else:
            xb, yb = as_bv(x, 64), as_bv(y, 64)
            cb = z3.If(c, z3.BitVecVal(1, 65), z3.BitVecVal(0, 65)) if isinstance(c, z3.BoolRef) else z3.BitVecVal(int(c), 65)
            full = z3.ZeroExt(1, xb) + z3.ZeroExt(1, yb) + cb
            r = simp(z3.Extract(63, 0, full))
            cf = simp(z3.Extract(64, 64, full) == 1)
            rb = as_bv(r, 64)
            of = simp(z3.And(z3.Extract(63, 63, xb) == z3.Extract(63, 63, yb), z3.Extract(63, 63, rb) != z3.Extract(63, 63, xb)))
            zf = simp(rb == 0)
            sf = simp(z3.Extract(63, 63, rb) == 1)
        vals = {"CF": cf, "OF": of, "ZF": zf, "SF": sf}
        for f in setf:
            self.flags[f] = vals[f]
        return r

    def _zero_if_multiple(self, r):
        """a value in [0,2^64) all of whose coefficients are multiples of 2^64 is zero: confirm with the solver"""
        if isinstance(r, LV) and r.t and r.c % (1 << 64) == 0 and all(k % (1 << 64) == 0 for k in r.t.values()):
            if self.lin.prove_zero(r, "low word"):
                self.lin.assume_zero(r, "word at %#x is a multiple of 2^64 in [0,2^64): zero" % self.cur)
                return self.lin.const(0)
        return r

    def _subb(self, x, y, bin_, setf=("CF", "OF", "ZF", "SF")):
        if isinstance(x, Ptr):
            dv = y.c if isinstance(y, LV) and y.is_const() else y
            if isinstance(dv, Ptr):
                raise ExecError("unsupported", "pointer difference")
            if not is_conc(dv):
                raise ExecError("unsupported", "pointer - symbolic")
            self._clobber(setf)
            return Ptr(x.obj, x.off - dv)
        if self.mode == "lin":
            L = self.lin
            full = L.sub(L.sub(x, y), bin_ if bin_ is not None else L.const(0))
            r, k = L.wrap(full, 64, "b")
            # sign and signed-overflow flags (needed by jl/jge/jg/jle/js/jns): over the integers, with X, Y the two's-complement readings of x, y
            H = 1 << 63
            zx, zy, zr = L.z(x), L.z(y), L.z(r)
            zb = L.z(bin_) if bin_ is not None else z3.IntVal(0)
            X = zx - z3.If(zx >= H, 1 << 64, 0)
            Y = zy - z3.If(zy >= H, 1 << 64, 0)
            S = X - Y - zb
            for f in setf:
                if f == "CF":
                    self._set_flag("CF", L.neg(k))
                elif f == "OF":
                    self._set_flag("OF", z3.Or(S < -H, S >= H))
                elif f == "SF":
                    self.flags[f] = zr >= H
                else:
                    self.flags[f] = UNDEF
            return r
        c = bin_ if bin_ is not None else 0
        if is_conc(x) and is_conc(y) and is_conc(c):
            full = x - y - int(c)
            r = full & M64
            cf = int(full < 0)
            sx, sy, sr = x >> 63, y >> 63, r >> 63
            of = int(sx != sy and sr != sx)
            zf, sf = int(r == 0), sr
        else:
            xb, yb = as_bv(x, 64), as_bv(y, 64)
            cb = z3.If(c, z3.BitVecVal(1, 65), z3.BitVecVal(0, 65)) if isinstance(c, z3.BoolRef) else z3.BitVecVal(int(c), 65)
            full = z3.ZeroExt(1, xb) - z3.ZeroExt(1, yb) - cb
            r = simp(z3.Extract(63, 0, full))
            cf = simp(z3.Extract(64, 64, full) == 1)
            rb = as_bv(r, 64)
            of = simp(z3.And(z3.Extract(63, 63, xb) != z3.Extract(63, 63, yb), z3.Extract(63, 63, rb) != z3.Extract(63, 63, xb)))
            zf = simp(rb == 0)
            sf = simp(z3.Extract(63, 63, rb) == 1)
        vals = {"CF": cf, "OF": of, "ZF": zf, "SF": sf}
        for f in setf:
            self.flags[f] = vals[f]
        return r

    def _mul_full(self, x, y):
        """(lo, hi) of the unsigned 64x64 product"""
        if self.mode == "lin":
            L = self.lin
            P = L.mul(x, y)
            lo, hi = L.wrap(P, 64, "h")
            return lo, hi
        if is_conc(x) and is_conc(y):
            p = x * y
            return p & M64, p >> 64
        p = z3.ZeroExt(64, as_bv(x, 64)) * z3.ZeroExt(64, as_bv(y, 64))
        return simp(z3.Extract(63, 0, p)), simp(z3.Extract(127, 64, p))

    # ------------------------------------------------------------------ forking (bv mode)
    def _feasible(self, cond):
        s = self.lin.solver if self.mode == "lin" else self.solver
        s.push()
        try:
            for a in self.assumptions:
                s.add(a)
            for c in self.pc:
                s.add(c)
            s.add(cond)
            r = s.check()
            self.queries += 1
        finally:
            s.pop()
        if r == z3.unknown:
            raise ExecError("solver", "unknown on feasibility")
        return r == z3.sat

    def branch(self, cond):
        if isinstance(cond, (bool, int)):
            return bool(cond)
        cond = z3.simplify(cond)
        if z3.is_true(cond):
            return True
        if z3.is_false(cond):
            return False
        if self.idx < len(self.decisions):
            d = self.decisions[self.idx]
            self.idx += 1
        else:
            t = self._feasible(cond)
            f = self._feasible(z3.Not(cond))
            if t and f:
                self.pending.append(self.decisions + [False])
                d = True
            elif t:
                d = True      # implied: recorded so that replays of a decision prefix stay aligned
            elif f:
                d = False
            else:
                raise PathAbort()
            self.decisions.append(d)
            self.idx += 1
        self.pc.append(cond if d else z3.Not(cond))
        return d

    def cut_to_bv(self):
        """replace every symbolic affine word by a fresh bit-vector variable, remembering its definition"""
        if self.mode != "lin":
            return
        def conv(v):
            if isinstance(v, LV):
                if v.is_const():
                    return v.c & M64
                k = self.lin.key(v)
                for name, (bv, lv) in self.cut_defs.items():
                    if self.lin.key(lv) == k:
                        return bv
                bv = self.fresh_bv("t")
                self.cut_defs[str(bv)] = (bv, v)
                return bv
            return v
        for r in REGS:
            self.regs[r] = conv(self.regs[r])
        objs = set()
        for r in REGS:
            if isinstance(self.regs[r], Ptr) and self.regs[r].obj is not None:
                objs.add(self.regs[r].obj)
        for o in list(objs) + list(getattr(self, "objects", [])):
            for off, (sz, v) in list(o.cells.items()):
                o.cells[off] = (sz, conv(v))
        for f in ("CF", "OF"):
            v = self.flags[f]
            if isinstance(v, LV):
                if f in self.unread and self.unread[f]:
                    self._set_flag(f, UNDEF)
                if isinstance(v, LV) and v.is_const():
                    self.flags[f] = bool(v.c)
                else:
                    self.flags[f] = UNDEF
        self.mode = "bv"
        self.cut_done = True
        self.cut_at = self.cur

    # ------------------------------------------------------------------ execution
    def call(self, symbol, args, objects=()):
        """System V: rdi, rsi, rdx, rcx, r8, r9.  Returns rax at ret."""
        self.objects = list(objects)
        for r, a in zip(["rdi", "rsi", "rdx", "rcx", "r8", "r9"], args):
            self.regs[r] = a
        for r in CALLEE_SAVED:
            tok = ("INIT", r)
            self.regs[r] = tok
            self.init_callee[r] = tok
        for r in ["rax", "rcx", "rdx", "r8", "r9", "r10", "r11", "rsi", "rdi"]:
            if self.regs[r] is None:
                self.regs[r] = None
        pc = self.p.sym[symbol]
        rsp0 = self.regs["rsp"].off
        while True:
            self.steps += 1
            if self.steps > 200000:
                raise ExecError("budget", "instruction budget")
            if pc not in self.p.ins:
                raise ExecError("unsupported", "execution left the text at %#x" % pc)
            self.cur = pc
            mn, ops, text, base = self.p.ins[pc]
            nxt = self.p.next.get(pc)
            r = self.step(mn, ops, base)
            if r == "ret":
                sp = self.regs["rsp"]
                if not isinstance(sp, Ptr) or sp.obj is not self.stack or sp.off != rsp0 + 8:
                    raise MemViolation("stack", "rsp not restored at ret (%r)" % (sp,))
                for rr in CALLEE_SAVED:
                    if self.regs[rr] is not self.init_callee[rr]:
                        raise MemViolation("callee-saved", "%%%s not restored at ret" % rr)
                return self.regs["rax"]
            if isinstance(r, int):
                pc = r
            else:
                pc = nxt

    def step(self, mn, ops, base):
        sz = 64
        if mn.endswith("l") and mn not in ("mul", "imul"):
            sz = 32 if mn in ("movl", "xorl", "btl", "andl", "addl", "subl", "cmpl", "testl") else 64
        if mn in ("movq", "movl", "movabsq"):
            v = self.read(ops[0], sz)
            self.write(ops[1], v, sz)
            return None
        if mn in ("addq", "adcq", "adcxq", "adoxq"):
            x = self.read(ops[1])
            y = self.read(ops[0])
            if mn == "addq":
                r = self._addc(x, y, None)
            elif mn == "adcq":
                r = self._addc(x, y, self._get_flag("CF"))
            elif mn == "adcxq":
                r = self._addc(x, y, self._get_flag("CF"), setf=("CF",))
            else:
                # adox: carry chain through OF
                cin = self._get_flag("OF")
                save = {f: self.flags[f] for f in ("CF", "ZF", "SF")}
                save_unread = self.unread["CF"]
                self.unread["CF"] = False
                r = self._addc(x, y, cin, setf=("CF",))
                of_new = self.flags["CF"]
                self.flags["CF"] = save["CF"]
                self.unread["CF"] = save_unread
                self._set_flag("OF", of_new)
            self.write(ops[1], r)
            return None
        if mn in ("subq", "sbbq", "cmpq"):
            if mn == "cmpq" and self.mode == "lin":
                x0, y0 = self.read(ops[1]), self.read(ops[0])
                if not (isinstance(x0, LV) and x0.is_const() and isinstance(y0, LV) and y0.is_const()):
                    if self.lin_branch:
                        if self.lin_cut and not self.cut_done:
                            self.cut_lin()
                            x0, y0 = self.read(ops[1]), self.read(ops[0])
                        zx, zy = self.lin.z(x0), self.lin.z(y0)
                        self._set_flag("CF", UNDEF)
                        self.flags["CF"] = zx < zy
                        self.flags["ZF"] = zx == zy
                        self.flags["OF"] = UNDEF
                        self.flags["SF"] = UNDEF
                        return None
                    self.cut_to_bv()
            x = self.read(ops[1])
            y = self.read(ops[0])
            r = self._subb(x, y, self._get_flag("CF") if mn == "sbbq" else None)
            if mn != "cmpq":
                self.write(ops[1], r)
            return None
        if mn == "negq":
            x = self.read(ops[0])
            r = self._subb(self._const(0), x, None)
            self.write(ops[0], r)
            return None
        if mn in ("xorq", "xorl"):
            if ops[0] == ops[1]:
                self.write(ops[1], self._const(0), sz)
                self._set_flag("CF", self._const(0) if self.mode == "lin" else 0)
                self._set_flag("OF", self._const(0) if self.mode == "lin" else 0)
                self.flags["ZF"] = 1
                self.flags["SF"] = 0
                return None
            if self.mode == "lin":
                raise ExecError("unsupported", "xor of distinct registers in lin mode")
            x, y = self.read(ops[1], sz), self.read(ops[0], sz)
            r = (x ^ y) if is_conc(x) and is_conc(y) else simp(as_bv(x, sz) ^ as_bv(y, sz))
            self.write(ops[1], r, sz)
            self.flags["CF"] = 0
            self.flags["OF"] = 0
            self.flags["ZF"] = simp(as_bv(r, sz) == 0) if not is_conc(r) else int(r == 0)
            self.flags["SF"] = UNDEF
            return None
        if mn in ("andq", "andl", "orq", "testq", "testl"):
            if self.mode == "lin":
                raise ExecError("unsupported", mn + " in lin mode")
            x, y = self.read(ops[1], sz), self.read(ops[0], sz)
            if mn.startswith("or"):
                r = (x | y) if is_conc(x) and is_conc(y) else simp(as_bv(x, sz) | as_bv(y, sz))
            else:
                r = (x & y) if is_conc(x) and is_conc(y) else simp(as_bv(x, sz) & as_bv(y, sz))
            if not mn.startswith("test"):
                self.write(ops[1], r, sz)
            self.flags["CF"] = 0
            self.flags["OF"] = 0
            self.flags["ZF"] = simp(as_bv(r, sz) == 0) if not is_conc(r) else int(r == 0)
            self.flags["SF"] = UNDEF
            return None
        if mn == "mulq":
            x = self.read("%rax")
            y = self.read(ops[0])
            lo, hi = self._mul_full(x, y)
            self.regs["rax"] = lo
            self.regs["rdx"] = hi
            self._clobber(("CF", "OF", "ZF", "SF"))
            # MUL: CF = OF = (high half != 0).  Materialised only if some instruction reads it (no routine of the unchanged tree does)
            self.flags["CF"] = self.flags["OF"] = MulFlag(hi)
            return None
        if mn == "mulxq":
            x = self.read("%rdx")
            y = self.read(ops[0])
            lo, hi = self._mul_full(x, y)
            # AT&T: mulx src, lo_dst, hi_dst ; if both destinations are the same register it receives the high half
            self.write(ops[1], lo)
            self.write(ops[2], hi)
            return None
        if mn == "imulq":
            if len(ops) == 2:
                x = self.read(ops[1])
                y = self.read(ops[0])
                dst = ops[1]
            else:
                x = self.read(ops[1])
                y = self.read(ops[0])
                dst = ops[2]
            lo, hi = self._mul_full(x, y)
            self.write(dst, lo)
            self._clobber(("CF", "OF", "ZF", "SF"))
            return None
        if mn == "pushq":
            v = self.read(ops[0])
            sp = self.regs["rsp"]
            sp = Ptr(sp.obj, sp.off - 8)
            self.regs["rsp"] = sp
            self.store(sp, v, 8)
            return None
        if mn == "popq":
            sp = self.regs["rsp"]
            v = self.load(sp, 8)
            del sp.obj.cells[sp.off]
            self.regs["rsp"] = Ptr(sp.obj, sp.off + 8)
            self.write(ops[0], v)
            return None
        if mn == "retq":
            sp = self.regs["rsp"]
            v = self.load(sp, 8)
            if v != "RETADDR":
                raise MemViolation("stack", "return address overwritten")
            self.regs["rsp"] = Ptr(sp.obj, sp.off + 8)
            for f in ("CF", "OF"):
                if self.unread[f]:
                    self._set_flag(f, UNDEF)
            return "ret"
        if mn in ("jb", "jae", "je", "jne", "ja", "jbe", "jc", "jnc", "jz", "jnz"):
            if self.mode == "lin" and not self.lin_branch:
                raise ExecError("unsupported", "conditional jump on affine flags before any compare at %#x" % self.cur)
            tgt = base + int(ops[0], 16)
            cf = lambda: self._flag_bool("CF")
            zf = lambda: self._flag_bool("ZF")
            cond = {"jb": lambda: cf(), "jc": lambda: cf(), "jae": lambda: z3.Not(cf()), "jnc": lambda: z3.Not(cf()),
                    "je": lambda: zf(), "jz": lambda: zf(), "jne": lambda: z3.Not(zf()), "jnz": lambda: z3.Not(zf()),
                    "ja": lambda: z3.And(z3.Not(cf()), z3.Not(zf())), "jbe": lambda: z3.Or(cf(), zf())}[mn]()
            return tgt if self.branch(cond) else None
        if mn in ("jl", "jge", "jg", "jle", "js", "jns", "jnge", "jnl", "jng", "jnle"):
            if self.mode == "lin" and not self.lin_branch:
                raise ExecError("unsupported", "conditional jump on affine flags before any compare at %#x" % self.cur)
            tgt = base + int(ops[0], 16)
            sf = lambda: self._flag_bool("SF")
            of = lambda: self._flag_bool("OF")
            zf = lambda: self._flag_bool("ZF")
            lt = lambda: z3.Xor(sf(), of())
            cond = {"jl": lt, "jnge": lt, "jge": lambda: z3.Not(lt()), "jnl": lambda: z3.Not(lt()),
                    "jg": lambda: z3.And(z3.Not(zf()), z3.Not(lt())), "jnle": lambda: z3.And(z3.Not(zf()), z3.Not(lt())),
                    "jle": lambda: z3.Or(zf(), lt()), "jng": lambda: z3.Or(zf(), lt()),
                    "js": sf, "jns": lambda: z3.Not(sf())}[mn]()
            return tgt if self.branch(cond) else None
        if mn == "jmp":
            return base + int(ops[0], 16)
        if mn in ("seto", "setb", "setc"):
            r, rb = self._reg(ops[0])
            if rb != 8:
                raise ExecError("unsupported", mn + " to non-byte register")
            fl = self._get_flag("OF" if mn == "seto" else "CF")
            old = self.regs[r]
            # only the low byte is written: the upper 56 bits of the old value must be zero for the result to be the flag
            if self.mode == "lin":
                if not isinstance(old, LV) or old.lo < 0 or old.hi > 255:
                    raise ExecError("unsupported", "%s into a register whose upper bytes are not known to be zero" % mn)
                self.regs[r] = fl
            else:
                fb = z3.If(as_z3bool(fl), z3.BitVecVal(1, 64), z3.BitVecVal(0, 64))
                if is_conc(old):
                    self.regs[r] = simp(z3.BitVecVal(old & ~0xff, 64) | fb)
                else:
                    self.regs[r] = simp((as_bv(old, 64) & z3.BitVecVal(M64 & ~0xff, 64)) | fb)
            return None
        if mn in ("sete", "setne", "setae"):
            raise ExecError("unsupported", mn)
        if mn == "cpuid":
            if self.cpuid is None:
                raise ExecError("unsupported", "cpuid without a stub")
            self.cpuid(self)
            return None
        if mn == "btl":
            if self.mode == "lin":
                raise ExecError("unsupported", "bt in lin mode")
            bit = self.read(ops[0], 32)
            x = self.read(ops[1], 32)
            if not is_conc(bit):
                raise ExecError("unsupported", "bt with symbolic bit index")
            self.flags["CF"] = int((x >> (bit % 32)) & 1) if is_conc(x) else simp(z3.Extract(bit % 32, bit % 32, as_bv(x, 32)) == 1)
            self.flags["OF"] = UNDEF
            return None
        if mn == "nop" or mn.startswith("nop"):
            return None
        raise ExecError("unsupported", "x86 instruction %s %s" % (mn, ",".join(ops)))

    cpuid = None
    lin_branch = False
    lin_cut = False

    def cut_lin(self):
        """havoc at the first compare: every symbolic affine word becomes a fresh integer variable of a *new* LinCtx
        (definitions kept in cut_defs), so the compare/conditional-subtract suffix is decided on a small constraint set"""
        L1 = self.lin
        L2 = self.lin2 if getattr(self, "lin2", None) is not None else LinCtx(20000)
        self.lin2 = L2
        self.lin_prefix = L1
        n = [0]
        seen = {}

        def conv(v):
            if isinstance(v, LV):
                if v.is_const():
                    return L2.const(v.c)
                k = L1.key(v)
                if k in seen:
                    return seen[k]
                n[0] += 1
                name = "t%d" % n[0]
                if name in self.lin2_vars:
                    t = self.lin2_vars[name]
                else:
                    t = L2.var(name)
                    self.lin2_vars[name] = t
                self.cut_defs[name] = (t, v)
                seen[k] = t
                return t
            return v
        for r in REGS:
            self.regs[r] = conv(self.regs[r])
        for o in list(getattr(self, "objects", [])) + [self.stack]:
            for off, (sz, v) in list(o.cells.items()):
                o.cells[off] = (sz, conv(v))
        for f in ("CF", "OF"):
            v = self.flags[f]
            if isinstance(v, LV):
                if self.unread[f]:
                    self._set_flag(f, UNDEF)
                self.flags[f] = L2.const(v.c) if isinstance(v, LV) and v.is_const() else UNDEF
        self.lin = L2
        self.cut_done = True
        self.cut_at = self.cur

    def _flag_bool(self, f):
        v = self._get_flag(f)
        if isinstance(v, LV):
            if v.is_const():
                return z3.BoolVal(v.c != 0)
            return self.lin.z(v) >= 1
        return as_z3bool(v)

    # ------------------------------------------------------------------ driver
    def explore(self, run_once, max_paths=64):
        self.pending = [[]]
        n = 0
        while self.pending:
            dec = self.pending.pop()
            n += 1
            if n > max_paths:
                raise ExecError("budget", "too many paths")
            lin = self.lin
            mode0 = getattr(self, "mode0", self.mode)
            self.mode0 = mode0
            self.mode = mode0
            self.decisions = list(dec)
            self.reset()
            try:
                res = run_once()
            except PathAbort:
                continue
            yield list(self.pc), res


def as_z3bool(v):
    if isinstance(v, (bool, int)):
        return z3.BoolVal(bool(v))
    return v
