"""Obligations for the ARMv6-M (Thumb-1) word kernels of C03, over engine/easm_t1.py.

Same specifications as every other back end (engine/wordspec.py): add/sub/double against wordspec.simple_spec; the 768-bit
product and square against  sum_{i,j} a_i b_j 2^(32(i+j))  where the 32x32 product a_i*b_j is DEFINED as the combination
LL + 2^16 (LH + HL) + 2^32 HH of the four opaque 16x16 products of the operands' halves (an integer identity; it is the
32x32 opaque product of the 32-bit-word portable back end written over halves); Montgomery reduction / fused multiply /
fused square:  T*2^384 = A + U*p  and  T < 2p  for the twelve words handed to fpbase_384_reduce (A = a for the plain
reduction, A = the product / square for the fused routines), the C++ reduce being a separate obligation.

How each VC is decided: the interpreter keeps every word as an affine integer form; carries that the code drops are proved
zero by z3 (QF_LIA) at the instruction that drops them and then eliminated; words whose form is divisible by 2^32 are
zero by arithmetic; the final identity is then posed to z3 over the *residual* (the difference of the two normal forms,
which is the zero form when everything telescopes) together with the word ranges; if that fails the full constraint
set is tried before anything is reported.  Counterexamples are confirmed in the interpreter's concrete mode only
(replay-kind=interpreter): there is no ARM hardware or emulator here.
"""
import glob
import os
import random
import z3

from . import build, gas_macro, easm_t1
from .easm_t1 import T1, Lin32, PREFIX, M32
from .eir import Ptr, Obj, MemViolation, ExecError
from .dom_lin import LV
from .framework import Violation, Inconclusive
from .wordspec import Q, R384, simple_spec

QINV32 = (-pow(Q, -1, 1 << 32)) % (1 << 32)
REDUCE = PREFIX + "fpbase_384_reduce"
# kind -> (n 384-bit inputs, 768-bit input?, has p/inv, result words)
KINDS = {
    "bigint_384_add": (2, False, False, 12), "bigint_384_subtract": (2, False, False, 12), "bigint_384_multiply2": (1, False, False, 12),
    "bigint_768_multiply": (2, False, False, 24), "bigint_768_square": (1, False, False, 24),
    "fpbase_384_multiply": (2, False, True, 12), "fpbase_384_square": (1, False, True, 12),
    "fpbase_384_montgomery_reduce": (0, True, True, 12),
}

_PROG = None


def program():
    """expanded instruction list of the current tree's armv6_m/*.s (regenerated in every process tree)"""
    global _PROG
    if _PROG is None:
        srcs = sorted(glob.glob(os.path.join(build.REPO, "src/core/arch/armv6_m/*.s")))
        if not srcs:
            raise Inconclusive("no ARMv6-M assembly sources under " + build.REPO)
        _PROG = gas_macro.read(srcs)
    return _PROG


def words_of(v, n):
    return [(v >> (32 * i)) & M32 for i in range(n)]


def int_of(ws):
    return sum(w << (32 * i) for i, w in enumerate(ws))


def mk_obj(name, vals, const=False, align=8):
    o = Obj(name, 4 * len(vals), "arg", align, const)
    for i, v in enumerate(vals):
        o.cells[4 * i] = (4, v)
    return o


def read_out(o, n):
    out = []
    for i in range(n):
        c = o.cells.get(4 * i)
        if c is None or c[0] != 4:
            raise MemViolation("uninit", "result word %d of %s was never written" % (i, o.name))
        out.append(c[1])
    return out


def reference(kind, a, b=0):
    """python big-integer reference: (result value, returned word or None)"""
    if kind == "bigint_384_add":
        return (a + b) % R384, (a + b) >> 384
    if kind == "bigint_384_subtract":
        return (a - b) % R384, int(a < b)
    if kind == "bigint_384_multiply2":
        return (2 * a) % R384, (2 * a) >> 384
    if kind == "bigint_768_multiply":
        return a * b, None
    if kind == "bigint_768_square":
        return a * a, None
    Rinv = pow(R384, -1, Q)
    if kind == "fpbase_384_multiply":
        return a * b * Rinv % Q, None
    if kind == "fpbase_384_square":
        return a * a * Rinv % Q, None
    if kind == "fpbase_384_montgomery_reduce":
        return a * Rinv % Q, None
    raise KeyError(kind)


# ---------------------------------------------------------------------------------------------------------------
# one call of a routine, in either domain
# ---------------------------------------------------------------------------------------------------------------
def setup_call(X, kind, alias, a_words, b_words, seen):
    """objects and arguments for `kind` under alias pattern 0 none, 1 res==a, 2 res==b, 3 res==a==b, 4 a==b (res distinct)"""
    nin, wide, has_p, nres = KINDS[kind]
    oa = mk_obj("a", a_words)
    ob = None
    if nin == 2:
        ob = oa if alias in (3, 4) else mk_obj("b", b_words)
    ores = oa if alias in (1, 3) else (ob if alias == 2 else Obj("res", 4 * nres, "arg", 8))
    for o in (oa, ob):
        if o is not None and o is not ores and not wide:
            o.const = True
    objs = [oa, ores] + ([ob] if ob is not None else [])
    args = [Ptr(ores, 0), Ptr(oa, 0)] + ([Ptr(ob, 0)] if nin == 2 else [])
    stack_args = []
    if has_p:
        op = mk_obj("p", [X.const(w) for w in words_of(Q, 12)], const=True)
        objs.append(op)
        args.append(Ptr(op, 0))
        inv = X.const(QINV32)
        if len(args) == 4:
            stack_args.append(inv)
        else:
            args.append(inv)

        def on_reduce(X_):
            r0, r1, r2 = X_.rd("r0"), X_.rd("r1"), X_.rd("r2")
            for nm, v in (("r0", r0), ("r1", r1), ("r2", r2)):
                if not isinstance(v, Ptr):
                    raise MemViolation("wild", "fpbase_384_reduce called with a non-pointer in %s" % nm)
            T = [X_.load(Ptr(r1.obj, r1.off + 4 * i)) for i in range(12)]
            P = [X_.load(Ptr(r2.obj, r2.off + 4 * i)) for i in range(12)]
            seen.update(T=T, dst=r0, src=r1, p=r2, src_mod8=(r1.off - easm_t1.ENTRY) % 8 if r1.obj is X_.stack else 0)
            if r0.obj is not ores or r0.off != 0 or r2.obj is not op or r2.off != 0:
                raise Violation("t1:%s:reduce-args" % kind, "%s%s calls fpbase_384_reduce with the wrong destination or modulus (%r, %r)" % (PREFIX, kind, r0, r2),
                                {"t1_kernel": kind, "backend": "t1"})
            if X_.L is None:
                t, pv = int_of(T), int_of(P)
                out = t - pv if t >= pv else t          # specification of FpBase<384>::reduce (separate obligation on fp.cpp's IR)
                for i, w in enumerate(words_of(out, 12)):
                    X_.store(Ptr(r0.obj, 4 * i), w)
            return None
        X.intercepts[REDUCE] = on_reduce
    return PREFIX + kind, args, stack_args, objs, ores


def run_concrete(kind, alias, a, b=0, tolerant=True):
    """concrete execution: (result value, returned r0, interpreter)"""
    nin, wide, has_p, nres = KINDS[kind]
    X = T1(program(), None, tolerant)
    seen = {}
    sym, args, sargs, objs, ores = setup_call(X, kind, alias, words_of(a, 24 if wide else 12), words_of(b, 12), seen)
    r0 = X.call(sym, args, sargs, objs)
    return int_of(read_out(ores, nres)), r0, X


_SHADOW = {}


def shadow_drops(kind, alias):
    """instruction addresses at which some concrete run overwrites a *set* carry unread (e.g. the top bit shifted out by the
    meta-carry idiom `adc r3,r3,r3`): the symbolic run does not ask the solver to prove those zero"""
    if (kind, alias) not in _SHADOW:
        rng = random.Random(11)
        acc = set()
        for a, b in operands(kind, rng, 6)[-12:] + operands(kind, rng, 0)[:4]:
            if alias in (3, 4) or KINDS[kind][0] == 1:
                b = a
            if KINDS[kind][2] and not KINDS[kind][1]:
                a, b = a % Q, b % Q
            try:
                acc |= run_concrete(kind, alias, a, b)[2].nonzero_drops
            except (MemViolation, ExecError):
                pass
        _SHADOW[(kind, alias)] = acc
    return _SHADOW[(kind, alias)]


def operands(kind, rng, n_random):
    nin, wide, has_p, _ = KINDS[kind]
    ones = R384 - 1
    if wide:
        top = Q >> 352
        ts = [Q - 1, Q, Q + 1, top << 352, (top << 352) + 5, (top << 352) | ((1 << 352) - 1), 2 * Q - 1, (top + 1) << 352, Q - (1 << 32), 0, 1, Q >> 1]
        pts = [(t * R384 if t < Q else t * R384 - (R384 - 1) * Q, 0) for t in ts]
        pts += [(Q * R384 - 1, 0), ((Q - 1) * (Q - 1), 0), (R384 - 1, 0), (((1 << 383) | 1) << 384, 0)]
        pts += [(rng.randrange(Q * R384), 0) for _ in range(n_random)]
        return [(a % (Q * R384), 0) for a, _ in pts]
    if has_p:
        base = [Q - 1, Q - 2, (Q - 1) // 2, (Q + 1) // 2, 0, 1, 2, Q - (1 << 32), (Q >> 352) << 352, (1 << 380) - 1, (1 << 380), 0xffff, 0xffff0000, (1 << 368) | 0xffffffff]
        gen = lambda: rng.randrange(Q)
    else:
        base = [ones, ones ^ 1, 1 << 383, (1 << 383) | 1, ((1 << 128) - 1) << 256, M32, M32 << 32, 0, 1, 0xffff, 0xffff0000, ones ^ (M32 << 64),
                int("0000ffff" * 12, 16), int("ffff0000" * 12, 16), int("80000000" * 12, 16), int("7fffffff" * 12, 16)]
        gen = lambda: rng.getrandbits(384) | (rng.choice([0, 1, 3]) << 382)
    pts = [(x, y) for x in base for y in base]
    rng.shuffle(pts)
    pts = [(x, x) for x in base] + pts[:60]
    pts += [(gen(), gen()) for _ in range(n_random)]
    return pts


def find_witness(kind, alias, first=(), n_random=60, seed=1):
    """concrete-mode search for operands on which the routine differs from the python reference"""
    rng = random.Random(seed)
    for a, b in list(first) + operands(kind, rng, n_random):
        if alias in (3, 4) or KINDS[kind][0] == 1:
            b = a
        if KINDS[kind][2] and not KINDS[kind][1]:
            a, b = a % Q, b % Q
        if KINDS[kind][1]:
            a %= Q * R384
        want, wret = reference(kind, a, b)
        try:
            got, r0, _ = run_concrete(kind, alias, a, b)
        except (MemViolation, ExecError) as e:
            return {"a": hex(a), "b": hex(b), "interpreter_error": str(e)}
        if got != want or (wret is not None and r0 != wret):
            return {"a": hex(a), "b": hex(b), "got": hex(got), "want": hex(want), "got_ret": r0, "want_ret": wret}
    return None


def fail(key, kind, alias, detail, model_pts=(), extra=None, inconclusive_ok=False, n_random=60):
    """a VC failed: confirm with a concrete interpreter run (solver model first), else report honestly as not decided"""
    ce = {"t1_kernel": kind, "backend": "t1", "alias": alias, "replay-kind": "interpreter"}
    ce.update(extra or {})
    w = find_witness(kind, alias, model_pts, n_random)
    if w is None:
        if inconclusive_ok:
            return None
        raise Inconclusive("%s: %s; neither the solver model nor the boundary/random operands reproduce a difference in the concrete interpreter" % (key, detail))
    ce.update(w)
    raise Violation(key, "%s; confirmed in the interpreter's concrete mode: a=%s b=%s gives %s, reference %s" % (
        detail, w["a"], w["b"], w.get("got", w.get("interpreter_error")), w.get("want")), ce)


def lost_text(X):
    if not X.lost_carries:
        return ""
    return "; carries overwritten unread and not provably zero: " + "; ".join("`%s` (%s)" % (t, w) for w, t, _ in X.lost_carries[:6])


# ---------------------------------------------------------------------------------------------------------------
# symbolic operands
# ---------------------------------------------------------------------------------------------------------------
def sym_words(L, prefix, n):
    return [L.var("%s%d" % (prefix, i), 32) for i in range(n)]


def sym_halves(L, prefix, n):
    """word i = lo_i + 2^16 hi_i with two 16-bit variables, so that uxth / lsr #16 split it structurally"""
    ws, hs = [], []
    for i in range(n):
        lo, hi = L.var("%sl%d" % (prefix, i), 16), L.var("%sh%d" % (prefix, i), 16)
        ws.append(L.add(lo, L.scale(hi, 1 << 16)))
        hs.append((lo, hi))
    return ws, hs


def lin_sum(L, ws):
    tot = L.const(0)
    for i, w in enumerate(ws):
        tot = L.add(tot, L.scale(w, 1 << (32 * i)))
    return tot


def product_spec(L, ah, bh):
    """sum_{i,j} (LL + 2^16 (LH + HL) + 2^32 HH)(a_i, b_j) 2^(32(i+j)) over opaque 16x16 products"""
    want = L.const(0)
    for i, (al, au) in enumerate(ah):
        for j, (bl, bu) in enumerate(bh):
            w = L.add(L.add(L.mul(al, bl), L.scale(L.add(L.mul(al, bu), L.mul(au, bl)), 1 << 16)), L.scale(L.mul(au, bu), 1 << 32))
            want = L.add(want, L.scale(w, 1 << (32 * (i + j))))
    return want


def model_value(env, prefix, n, halves):
    if halves:
        return sum((env.get("%sl%d" % (prefix, i), 0) + (env.get("%sh%d" % (prefix, i), 0) << 16)) << (32 * i) for i in range(n))
    return sum(env.get("%s%d" % (prefix, i), 0) << (32 * i) for i in range(n))


def stats(L, X, sym, sample, extra_q=0):
    return {"queries": L.queries + extra_q, "solver_s": L.solver_time, "paths": 1, "functions": [sym], "sample": sample}


# ---------------------------------------------------------------------------------------------------------------
# add / subtract / double
# ---------------------------------------------------------------------------------------------------------------
def t1_simple(kind, alias=0, timeout_ms=60000):
    nin = KINDS[kind][0]
    L = Lin32(timeout_ms)
    X = T1(program(), L)
    av = sym_words(L, "a", 12)
    bv = av if (nin == 1 or alias == 3) else sym_words(L, "b", 12)
    sym, args, sargs, objs, ores = setup_call(X, kind, alias, av, bv, {})
    r0 = X.call(sym, args, sargs, objs)
    out = read_out(ores, 12)
    key = "t1:%s:alias=%d" % (kind, alias)
    if not isinstance(r0, LV):
        raise Violation(key + ":ret", "%s leaves no integer return value in r0" % sym, {"t1_kernel": kind, "backend": "t1"})
    zA, zB = L.z(lin_sum(L, av)), L.z(lin_sum(L, bv))
    vc = simple_spec(kind, zA, zB, L.z(L.resolve(lin_sum(L, out))), L.z(L.resolve(r0)))
    ok = L.prove(vc, kind)
    if ok is None:
        raise Inconclusive("solver unknown on " + key)
    if not ok:
        env = L.model_for(z3.Not(vc)) or {}
        fail(key, kind, alias, "%s differs from the specification%s%s" % (sym, " when res aliases operand pattern %d" % alias if alias else "", lost_text(X)),
             [(model_value(env, "a", 12, False), model_value(env, "b", 12, False))])
    return stats(L, X, sym, "%s alias=%d: %d instructions, 1 path (no branches), result and returned carry/borrow == spec for all operands (QF_LIA)" % (sym, alias, X.steps))


# ---------------------------------------------------------------------------------------------------------------
# deciding an identity between a sum of result words and a specification form
# ---------------------------------------------------------------------------------------------------------------
def residual_zero(L, D, facts=(), goal=None, timeout_ms=15000):
    """decide  facts => (D == 0 [and goal])  in a fresh small solver over the variables of the residual form D (a residual with
    many terms means that the normal forms do not telescope: not attempted, the caller looks for a concrete witness instead)"""
    if len(D.t) > 48:
        return None
    s = z3.Solver()
    s.set("timeout", timeout_ms)
    for v in D.t:
        s.add(L.zv[v] >= L.vlo[v], L.zv[v] <= L.vhi[v])
    for f in facts:
        s.add(f)
    concl = L.z(D) == 0 if goal is None else z3.And(L.z(D) == 0, goal)
    s.add(z3.Not(concl))
    L.queries += 1
    r = s.check()
    return True if r == z3.unsat else (False if r == z3.sat else None)


def words_in_range(ws):
    return all(isinstance(w, LV) and w.lo >= 0 and w.hi <= M32 for w in ws)


def decide_sum(L, X, got_words, want, key, kind, alias, detail, model_pts_of):
    """sum got_i 2^(32 i) == want for all values.  Order: normal forms; residual + ranges (small z3 query); concrete witness
    search; the full constraint set (bounded time).  Returns a description of what decided it, or raises."""
    got = L.resolve(lin_sum(L, got_words))
    D = L.resolve(L.sub(got, want))
    if not D.t and D.c == 0:
        return "normal forms identical"
    if words_in_range(got_words):
        G, Wn = z3.Int("G!"), z3.Int("W!")
        n = len(got_words)
        if residual_zero(L, D, [G - Wn == L.z(D), G >= 0, G < (1 << (32 * n)), Wn >= want.lo, Wn <= want.hi]):
            return "z3 on the residual of the normal forms (%d terms) + ranges of the result words and of the specification" % len(D.t)
    fail(key, kind, alias, detail + lost_text(X), inconclusive_ok=True)
    ident = L.eq(got, want)
    ok = L.prove(ident, "identity", 30000)
    if ok:
        return "z3 on the full constraint set (QF_LIA)"
    if ok is None:
        raise Inconclusive("%s: solver unknown on the identity and no concrete witness found (%s)" % (key, detail))
    env = L.model_for(z3.Not(ident)) or {}
    fail(key, kind, alias, detail + lost_text(X), model_pts_of(env), n_random=0)


# ---------------------------------------------------------------------------------------------------------------
# 768-bit product / square
# ---------------------------------------------------------------------------------------------------------------
def t1_multiply(square, timeout_ms=120000):
    kind = "bigint_768_square" if square else "bigint_768_multiply"
    L = Lin32(timeout_ms)
    X = T1(program(), L, tolerant=True)          # stray reads are the subject of the frame-discipline obligation; here they are arbitrary words
    X.known_nonzero_drops = shadow_drops(kind, 0)
    aw, ah = sym_halves(L, "a", 12)
    bw, bh = (aw, ah) if square else sym_halves(L, "b", 12)
    sym, args, sargs, objs, ores = setup_call(X, kind, 0, aw, bw, {})
    X.call(sym, args, sargs, objs)
    how = decide_sum(L, X, read_out(ores, 24), product_spec(L, ah, bh), "t1:" + kind, kind, 0, "%s: result is not sum a_i*b_j*2^(32(i+j))" % sym,
                     lambda env: [(model_value(env, "a", 12, True), model_value(env, "a" if square else "b", 12, True))])
    return stats(L, X, sym, "%s: %d instructions, %d dropped carries proved zero by z3 and eliminated, %d opaque 16x16 products, %d quotient variables; identity: %s" % (
        sym, X.steps, X.proved_carries, len(L.products), len(L.wraps), how))


# ---------------------------------------------------------------------------------------------------------------
# Montgomery reduction, fused multiply, fused square
# ---------------------------------------------------------------------------------------------------------------
def t1_montgomery(kind, alias=0, timeout_ms=120000):
    nin, wide, has_p, _ = KINDS[kind]
    L1 = Lin32(timeout_ms)
    X = T1(program(), L1)
    X.known_nonzero_drops = shadow_drops(kind, alias)
    if wide:
        aw, ah = sym_words(L1, "a", 24), None
        bw = bh = None
    else:
        aw, ah = sym_halves(L1, "a", 12)
        bw, bh = (aw, ah) if (nin == 1 or alias in (3, 4)) else sym_halves(L1, "b", 12)
    seen = {}
    sym, args, sargs, objs, ores = setup_call(X, kind, alias, aw, bw, seen)
    key = "t1:%s:alias=%d" % (kind, alias)
    st = {"cut": False, "us": []}

    def is_inv(v):
        return isinstance(v, LV) and v.is_const() and v.c == QINV32

    def pre_mul(X_, ra, rb):
        if st["cut"] or not (is_inv(X_.regs[ra]) or is_inv(X_.regs[rb])):
            return
        # first multiplication by the inverse word: the 768-bit temporary must hold A; then continue from an arbitrary A < p*2^384
        X_._drop()
        sp = X_.regs["sp"]
        tmp = [X_.load(Ptr(sp.obj, sp.off + 4 * i)) for i in range(24)]
        st["prefix_how"] = decide_sum(
            L1, X_, tmp, lin_sum(L1, aw) if wide else product_spec(L1, ah, bh), key + ":prefix", kind, alias,
            "%s: the 768-bit temporary does not hold %s when the reduction starts" % (sym, "a" if wide else "the product"),
            lambda env: [(model_value(env, "a", 24 if wide else 12, not wide), 0 if wide else model_value(env, "a" if bw is aw else "b", 12, True))])
        L2 = Lin32(timeout_ms)
        tv = sym_words(L2, "t", 24)
        # A = a*b < p^2 < p*2^384 for a, b < p (integer arithmetic on the real product); A = a < p*2^384 is the documented domain of the plain reduction
        L2.assume(L2.z(lin_sum(L2, tv)) < Q * R384, tv)
        memo = {}

        def conv(v):
            if not isinstance(v, LV):
                return v
            if v.is_const():
                return L2.const(v.c)
            k = L1.key(L1.resolve(v))
            if k not in memo:
                memo[k] = L2.var("stale%d" % len(memo), 32)     # whatever else is live is an arbitrary word from here on
            return memo[k]
        for i in range(24):
            memo[L1.key(L1.resolve(tmp[i]))] = tv[i]          # registers holding a copy of a temporary word keep denoting that word
        for r in X_.regs:
            X_.regs[r] = conv(X_.regs[r])
        for o in X_.objects + [X_.stack]:
            for off, (sz, v) in list(o.cells.items()):
                o.cells[off] = (sz, conv(v))
        for i in range(24):
            X_.stack.cells[sp.off + 4 * i] = (4, tv[i])
        if isinstance(X_.C, (LV, easm_t1.Lazy)):
            X_.C, X_.c_src = easm_t1.POISON, X_.cur
        X_.L = L2
        st.update(cut=True, tv=tv, L2=L2, cut_at=X_.cur.where, steps_at_cut=X_.steps, carries_at_cut=X_.proved_carries)

    def post_mul(X_, x, y, r):
        if st["cut"] and (is_inv(x) or is_inv(y)):
            st["us"].append(r)
    X.pre_mul, X.mul_hook = pre_mul, post_mul
    X.call(sym, args, sargs, objs)
    ce = {"t1_kernel": kind, "backend": "t1", "alias": alias}
    if not st["cut"]:
        raise Violation(key + ":shape", "%s never multiplies by the inverse word" % sym, ce)
    if "T" not in seen:
        raise Violation(key + ":shape", "%s never calls fpbase_384_reduce" % sym, ce)
    if ores.written:
        raise Violation(key + ":shape", "%s stores into the result object itself; the result must come from fpbase_384_reduce alone" % sym, ce)
    L2 = st["L2"]
    if len(st["us"]) != 12:
        fail(key + ":shape", kind, alias, "%s: expected 12 multiplications by the inverse word, saw %d" % (sym, len(st["us"])))
    T, U, A = lin_sum(L2, seen["T"]), lin_sum(L2, st["us"]), lin_sum(L2, st["tv"])
    D = L2.resolve(L2.sub(L2.scale(T, R384), L2.add(A, L2.scale(U, Q))))
    detail = "%s: T*2^384 = A + U*p with T < 2p does not hold for the twelve words handed to fpbase_384_reduce" % sym
    Ts, As, Us = z3.Int("T!"), z3.Int("A!"), z3.Int("U!")
    facts = [Ts * R384 - As - Us * Q == L2.z(D), Ts >= 0, Ts < R384, Us >= 0, Us < R384, As >= 0, As < Q * R384]
    how = "z3 on the residual of the normal forms (%d terms) + ranges of the words of T and U and A < p*2^384" % len(D.t)
    if not (words_in_range(seen["T"] + st["us"]) and residual_zero(L2, D, facts, Ts < 2 * Q)):
        fail(key + ":identity", kind, alias, detail + lost_text(X), inconclusive_ok=True)
        how = "z3 on the full constraint set (QF_LIA)"
        ident = L2.z(T) * R384 == L2.z(A) + L2.z(U) * Q
        ok = L2.prove(ident, "montgomery identity", 30000)
        if ok:
            L2.solver.add(ident)
            ok = L2.prove(L2.z(T) < 2 * Q, "T < 2p", 30000)
        if not ok:
            raise Inconclusive("%s: %s is not established by the solver (%s) and no concrete witness was found%s" % (
                key, detail, "unknown" if ok is None else "countermodel over opaque quantities", lost_text(X)))
    note = ""
    if seen.get("src_mod8"):
        note = "; note: the BigInt<384>& handed to reduce is at entry sp%+d (= %d mod 8)" % (seen["src"].off - easm_t1.ENTRY, seen["src_mod8"])
    return {"queries": L1.queries + L2.queries, "solver_s": L1.solver_time + L2.solver_time, "paths": 1, "functions": [sym],
            "sample": "%s alias=%d: %d instructions; temporary == %s at %s (%s); then T*2^384 = A + U*p and T < 2p for every A < p*2^384 (%s); %d dropped carries proved zero by z3, "
                      "%d words zero by divisibility%s" % (sym, alias, X.steps, "a" if wide else "sum of half products", st.get("cut_at"), st["prefix_how"], how,
                                                       X.proved_carries, L2.div_facts, note)}
