"""Loop cutting for loops whose state lives in memory (no header phis), built on Interp.loop_hook (engine/loopcut.py needs a phi).

HeaderCut   classic cut at a named natural-loop header: first arrival -> on_entry(regs) then havoc(regs) (the harness overwrites the
            loop-carried memory by an arbitrary state satisfying its invariant); arrival over a back edge -> eir.LoopCut.

RetryCut    for *retry* loops (rejection sampling, "draw again until accepted"): no invariant is needed because an iteration does not
            depend on the previous one.  That claim is CHECKED, not assumed: when control reaches a loop header over a back edge the
            current state is compared with the snapshot taken when the header was last entered from outside the loop:
               - every header phi receives the same value as then, and
               - every memory cell that was defined then still holds the same value (cells that were undefined then may hold anything).
            If so the path ends there (eir.LoopCut): an iteration started from this state behaves like the one just explored from
            the snapshot, because E-IR's read-before-write assertion was on during that exploration, so no explored iteration path
            reads a cell that was undefined in the snapshot.  Hence exploring all paths from the function entry covers every
            iteration of every retry loop.  A back edge whose state differs from the snapshot (a counting loop) is simply followed.
"""
import z3

from . import eir, loopcut
from .eir import Ptr, ExecError


def same_value(a, b):
    if a is b:
        return True
    if isinstance(a, int) and isinstance(b, int):
        return a == b
    if isinstance(a, z3.ExprRef) and isinstance(b, z3.ExprRef):
        return a.eq(b)
    if isinstance(a, Ptr) and isinstance(b, Ptr):
        return a.obj is b.obj and same_value(a.off, b.off)
    k = getattr(a, "same_as", None)
    return bool(k and k(b))


class HeaderCut:
    def __init__(self, I, fname, header=None):
        self.I = I
        self.fn = I.prog.fn[fname]
        be = loopcut.back_edges(self.fn)
        heads = sorted(set(h for _, h in be))
        if header is None:
            if len(heads) != 1:
                raise ExecError("spec", "%s has %d loops; a header must be named" % (fname, len(heads)))
            header = heads[0]
        self.header = header
        self.latches = [l for l, h in be if h == header]
        self.visits = 0
        self.on_entry = None
        self.havoc = None
        I.loop_hook = self._hook

    def reset(self):
        self.visits = 0

    def _hook(self, I, fn, block, prev, regs):
        if fn is not self.fn or block != self.header:
            return None
        self.visits += 1
        if self.visits == 1:
            if prev in self.latches:
                raise ExecError("spec", "first arrival at the loop header comes from a latch")
            if self.on_entry is not None:
                self.on_entry(regs)
            if self.havoc is not None:
                self.havoc(regs)
            return None
        raise eir.LoopCut(fn, block, prev, regs)


class RetryCut:
    def __init__(self, I, fnames, objects=()):
        """fnames: mangled names of the functions whose loops are examined; objects: callable returning the harness objects to track"""
        self.I = I
        self.fns = {}
        for n in fnames:
            f = I.prog.fn[n]
            self.fns[id(f)] = (f, set(loopcut.back_edges(f)))
        self.objects = objects
        self.snap = {}
        self.cuts = 0
        self.followed = 0
        I.loop_hook = self._hook

    def reset(self):
        self.snap.clear()

    def _phis(self, I, fn, block, prev, regs):
        lay = I.prog.layout(fn.module)
        out = []
        for ins in fn.blocks[block]:
            if ins.op != "phi":
                break
            for (v, lab) in ins.args:
                if lab == prev:
                    out.append(I.operand(v, ins.ty, regs, lay))
                    break
        return out

    def _tracked(self, regs):
        objs = {}
        for v in regs.values():
            if isinstance(v, Ptr) and v.obj is not None and not v.obj.const:
                objs[id(v.obj)] = v.obj
        for o in (self.objects() if callable(self.objects) else self.objects):
            objs[id(o)] = o
        for o in self.I.globals.values():
            if not o.const:
                objs[id(o)] = o
        return list(objs.values())

    def _hook(self, I, fn, block, prev, regs):
        ent = self.fns.get(id(fn))
        if ent is None:
            return None
        be = ent[1]
        heads = set(h for _, h in be)
        if block not in heads:
            return None
        key = (fn.name, block)
        phis = self._phis(I, fn, block, prev, regs)
        if (prev, block) not in be:
            self.snap[key] = (phis, [(o, dict(o.cells)) for o in self._tracked(regs)])
            return None
        s = self.snap.get(key)
        if s is None:
            raise ExecError("spec", "back edge into %s:%s before the loop was entered" % (fn.name, block))
        sphis, smem = s
        same = len(sphis) == len(phis) and all(same_value(a, b) for a, b in zip(sphis, phis))
        if same:
            for o, cells in smem:
                for off, (size, val) in cells.items():
                    c = o.cells.get(off)
                    if c is None or c[0] != size or not same_value(c[1], val):
                        same = False
                        break
                if not same:
                    break
        if same:
            self.cuts += 1
            raise eir.LoopCut(fn, block, prev, regs)
        self.followed += 1
        return None
