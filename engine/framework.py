"""Common scaffolding of every check: obligations, parallel execution, known findings, evidence, exit codes."""
import json
import multiprocessing
import os
import sys
import time
import traceback
import hashlib

from . import eir

VERIF = os.path.dirname(os.path.dirname(os.path.abspath(__file__)))
# VERIF_OUT redirects evidence/ and replays/ (used when trying seeded changes on a scratch tree, so that the committed
# evidence of the unchanged tree is never overwritten by such a run)
_OUT = os.environ.get("VERIF_OUT", VERIF)
EVIDENCE = os.path.join(_OUT, "evidence")
REPLAYS = os.path.join(_OUT, "replays")
KNOWN = os.path.join(VERIF, "known_findings.txt")


class Result:
    def __init__(self, name):
        self.name = name
        self.status = "inconclusive"     # proved | violated | inconclusive
        self.detail = ""
        self.queries = 0
        self.solver_s = 0.0
        self.wall_s = 0.0
        self.paths = 0
        self.functions = []
        self.finding_key = None          # stable key identifying the failing input / call site
        self.counterexample = None       # json-able
        self.replayed = None             # None (not attempted) | True | False
        self.sample = None

    def to_json(self):
        return dict(self.__dict__)


class Violation(Exception):
    def __init__(self, key, detail, counterexample=None):
        Exception.__init__(self, detail)
        self.key = key
        self.detail = detail
        self.counterexample = counterexample


class Inconclusive(Exception):
    pass


_JOBS = []


def _run_idx(i):
    return _run_one(_JOBS[i])


class _Budget(Exception):
    pass


def _alarm(signum, frame):
    raise _Budget()


BUDGET_S = 600


def _run_one(job):
    import signal
    name, fn, args = job
    r = Result(name)
    t0 = time.time()
    signal.signal(signal.SIGALRM, _alarm)
    signal.alarm(BUDGET_S)
    try:
        try:
            info = fn(*args) or {}
        finally:
            signal.alarm(0)
        r.status = "proved"
        for k, v in info.items():
            setattr(r, k, v)
    except Violation as v:
        r.status = "violated"
        r.finding_key = v.key
        r.detail = v.detail
        r.counterexample = v.counterexample
        info = getattr(v, "info", None) or {}
        for k, val in info.items():
            setattr(r, k, val)
    except eir.MemViolation as e:
        r.status = "violated"
        r.finding_key = "%s:%s" % (name, e.kind)
        r.detail = str(e)
    except (eir.ExecError, Inconclusive) as e:
        r.status = "inconclusive"
        r.detail = "%s" % (e,)
    except _Budget:
        r.status = "inconclusive"
        r.detail = "wall-clock budget of %d s exhausted" % BUDGET_S
    except Exception as e:
        r.status = "inconclusive"
        r.detail = "internal error: %s\n%s" % (e, traceback.format_exc()[-1500:])
    r.wall_s = time.time() - t0
    r.executed = sorted(eir.EXECUTED)
    return r


def _replay_summary(r):
    return "obligation=%s status=%s key=%s %s" % (r.name, r.status, r.finding_key, (r.detail or "")[:300])


def load_known():
    """known_findings.txt lines:  known: property=<id> key=<finding key> <text>   |   fixed: property=<id> <commit> <text>"""
    known = {}
    if not os.path.exists(KNOWN):
        return known
    for line in open(KNOWN):
        line = line.strip()
        if not line or line.startswith("#"):
            continue
        if line.startswith("known:"):
            parts = line.split()
            pid = [p for p in parts if p.startswith("property=")][0].split("=", 1)[1]
            key = [p for p in parts if p.startswith("key=")][0].split("=", 1)[1]
            known.setdefault(pid, {})[key] = line
    return known


class _Included:
    """what a lower-layer module's register() sees when it is included by another check"""

    def __init__(self, chk, prefix, only=None):
        self._chk, self._prefix = chk, prefix
        self._only = only
        # included lower layers always run at their quick tier: their deep exploration is the thorough tier of their own check
        self.tier, self.args, self.pid = "quick", chk.args, chk.pid
        self.replayer = None
        self.explanation = ""
        self.bounds, self.trusted, self.assumptions = [], [], []

    def add(self, name, fn, *args):
        import re
        if self._only and not re.search(self._only, name):
            return
        self._chk.add(self._prefix + name, fn, *args)


class Check:
    def __init__(self, pid, level, argv=None):
        import argparse
        ap = argparse.ArgumentParser()
        ap.add_argument("--tier", default=os.environ.get("VERIF_TIER", "quick"), choices=["quick", "thorough"])
        ap.add_argument("--replay", default=None)
        ap.add_argument("--only", default=None, help="regex on obligation names")
        ap.add_argument("--jobs", type=int, default=int(os.environ.get("VERIF_JOBS", "14")))
        ap.add_argument("--verbose", "-v", action="store_true")
        self.args = ap.parse_args(argv)
        self.pid = pid
        self.level = level
        self.replay_of = None
        if self.args.replay:
            # --replay <file>: re-run exactly the obligation recorded in the replay file (symbolic check + native replay of its
            # counterexample) against the current tree; exit 1 + VIOLATION if it is still violated, exit 0 if it no longer is
            import re as _re
            self.replay_of = json.load(open(self.args.replay))
            self.args.only = "^" + _re.escape(self.replay_of.get("obligation", "")) + "$"
        self.tier = self.args.tier
        global BUDGET_S
        BUDGET_S = 300 if self.tier == "quick" else 3600
        self.seed = int(os.environ.get("VERIF_SEED", "0"))
        self.jobs = []
        self.results = []
        self.t0 = time.time()
        self.assumptions = []
        self.trusted = []
        self.bounds = []
        self.explanation = ""
        self.functions_encoded = set()
        self.replayer = None       # callable(result) -> True/False/None, set by the check
        self.dep_replayers = {}    # obligation-name prefix -> replayer of the included lower-layer check
        self.included = []

    def _finish_replay(self):
        rp = self.replay_of
        if not self.results:
            print("REPLAY property=%s: obligation %r does not exist in this check any more" % (self.pid, rp.get("obligation")))
            sys.exit(2)
        r = self.results[0]
        if r.status == "violated" and self._replayer_for(r) is not None:
            try:
                r.replayed = self._replayer_for(r)(r)
            except Exception as e:
                r.detail += " [replay error: %s]" % e
        print("REPLAY property=%s file=%s" % (self.pid, self.args.replay))
        print("  recorded : key=%s %s" % (rp.get("key"), str(rp.get("detail"))[:200]))
        print("  now      : " + _replay_summary(r) + (" native_replay=%s" % r.replayed if r.replayed is not None else ""))
        if r.status == "violated":
            print("VIOLATION property=%s replay=%s" % (self.pid, self.args.replay))
            sys.exit(1)
        sys.exit(0 if r.status == "proved" else 2)

    def _replayer_for(self, r):
        for pre, fn in self.dep_replayers.items():
            if r.name.startswith(pre):
                return fn
        return None if r.name.startswith("dep:") else self.replayer

    def add(self, name, fn, *args):
        import re
        if self.args.only and not re.search(self.args.only, name):
            return
        self.jobs.append((name, fn, args))

    def include(self, pid, only=None):
        """Register the obligations of a lower-layer check inside this one (names prefixed `dep:<pid>:`).  A check replaces lower-layer functions
        by their specifications; the obligations that establish those specifications belong to its claim, so a change below that breaks this
        property is reported here as well, not only by the lower check.  The module's `include_in(proxy)` builds its programs in this (parent)
        process and registers its obligations."""
        import importlib
        here = os.path.join(VERIF, "checks")
        if here not in sys.path:
            sys.path.insert(0, here)
        mod = importlib.import_module(pid.lower())
        proxy = _Included(self, "dep:%s:" % pid, only)
        mod.include_in(proxy)
        if proxy.replayer is not None:
            self.dep_replayers["dep:%s:" % pid] = proxy.replayer
        self.included.append(pid)

    def run(self):
        n = max(1, min(self.args.jobs, len(self.jobs)))
        if n == 1 or len(self.jobs) <= 1:
            self.results = [_run_one(j) for j in self.jobs]
        else:
            self.results = self._run_forked(n)
        return self.results

    def _run_forked(self, n):
        """one forked process per obligation (solver state never leaks between obligations), at most n at a time, each with a hard deadline: the
        in-process alarm cannot interrupt a solver call that ignores its timeout, so a worker that overruns its budget by a minute is killed and
        its obligation reported inconclusive"""
        import pickle
        ctx = multiprocessing.get_context("fork")
        results = [None] * len(self.jobs)
        pending = list(range(len(self.jobs)))
        running = {}          # idx -> (process, parent connection, start time)
        hard = BUDGET_S + 60

        def worker(idx, conn):
            try:
                r = _run_one(self.jobs[idx])
                try:
                    conn.send_bytes(pickle.dumps(r))
                except Exception as e:          # unpicklable payload: send a reduced record
                    r2 = Result(r.name)
                    r2.status, r2.detail, r2.finding_key = r.status, (r.detail or "") + " [result not picklable: %s]" % e, r.finding_key
                    conn.send_bytes(pickle.dumps(r2))
            finally:
                conn.close()
                os._exit(0)
        while pending or running:
            while pending and len(running) < n:
                idx = pending.pop(0)
                pc, cc = ctx.Pipe(duplex=False)
                pr = ctx.Process(target=worker, args=(idx, cc))
                pr.start()
                cc.close()
                running[idx] = (pr, pc, time.time())
            progressed = False
            for idx in list(running):
                pr, pc, t0 = running[idx]
                if pc.poll(0):
                    try:
                        results[idx] = pickle.loads(pc.recv_bytes())
                    except (EOFError, OSError):
                        results[idx] = None
                    pr.join(5)
                    if pr.is_alive():
                        pr.kill()
                    pc.close()
                    del running[idx]
                    progressed = True
                elif not pr.is_alive():
                    pr.join()
                    pc.close()
                    del running[idx]
                    progressed = True
                elif time.time() - t0 > hard:
                    pr.kill()
                    pr.join()
                    pc.close()
                    r = Result(self.jobs[idx][0])
                    r.status = "inconclusive"
                    r.detail = "killed after %d s (the solver did not honour its time limit)" % int(time.time() - t0)
                    r.wall_s = time.time() - t0
                    results[idx] = r
                    del running[idx]
                    progressed = True
            if not progressed:
                time.sleep(0.02)
        for idx, r in enumerate(results):
            if r is None:
                r = Result(self.jobs[idx][0])
                r.status = "inconclusive"
                r.detail = "worker process ended without a result"
                results[idx] = r
        return results

    def finish(self):
        if self.replay_of is not None:
            return self._finish_replay()
        known = load_known().get(self.pid, {})
        os.makedirs(EVIDENCE, exist_ok=True)
        os.makedirs(REPLAYS, exist_ok=True)
        nviol = 0
        ninc = 0
        lines = []
        known_hit = []
        for r in self.results:
            if r.status == "violated":
                rp_fn = self._replayer_for(r)
                if rp_fn is not None and r.replayed is None:
                    import signal
                    signal.signal(signal.SIGALRM, _alarm)
                    signal.alarm(300)
                    try:
                        r.replayed = rp_fn(r)
                    except _Budget:
                        r.replayed = None
                        r.detail += " [replay timed out]"
                    except Exception as e:
                        r.replayed = None
                        r.detail += " [replay error: %s]" % e
                    finally:
                        signal.alarm(0)
                if r.finding_key in known:
                    known_hit.append(r)
                    lines.append("KNOWN-FINDING: property=%s %s" % (self.pid, known[r.finding_key].split("key=", 1)[1]))
                    continue
                if r.replayed is False:
                    # model did not reproduce against the real build: machinery problem, not a finding
                    r.status = "inconclusive"
                    r.detail += " [counterexample did not reproduce natively]"
                    ninc += 1
                    lines.append("INCONCLUSIVE property=%s obligation=%s %s" % (self.pid, r.name, r.detail[:300]))
                    continue
                nviol += 1
                h = hashlib.sha1((r.name + str(r.finding_key)).encode()).hexdigest()[:10]
                path = os.path.join(REPLAYS, "%s-%s.json" % (self.pid, h))
                with open(path, "w") as f:
                    json.dump({"property": self.pid, "obligation": r.name, "key": r.finding_key, "detail": r.detail,
                               "counterexample": r.counterexample, "replayed_natively": r.replayed}, f, indent=1, default=str)
                lines.append("VIOLATION property=%s replay=%s" % (self.pid, path))
                lines.append("  obligation=%s key=%s %s" % (r.name, r.finding_key, r.detail[:400]))
            elif r.status == "inconclusive":
                ninc += 1
                lines.append("INCONCLUSIVE property=%s obligation=%s %s" % (self.pid, r.name, r.detail[:400]))
        proved = [r for r in self.results if r.status == "proved"]
        wall = time.time() - self.t0
        ev = {
            "property_id": self.pid,
            "tier": self.tier,
            "seed": self.seed,
            "level": self.level,
            "wall_s": round(wall, 2),
            "violations": nviol,
            "assumptions": self.assumptions,
            "coverage": {
                "explanation": self.explanation,
                "obligations": len(self.results),
                "discharged": len(proved),
                "known_findings_hit": [r.finding_key for r in known_hit],
                "inconclusive": [r.name for r in self.results if r.status == "inconclusive"],
                "checker_cmd": "./check %s --tier %s" % (self.pid, self.tier),
                "trusted_base": self.trusted,
                "bounds": self.bounds,
                "functions_encoded": sorted(set(sum([list(r.functions) for r in self.results], [])) | self.functions_encoded),
                "ir_functions_interpreted": sorted(set(sum([list(getattr(r, "executed", [])) for r in self.results], []))),
                "solver_queries": sum(r.queries for r in self.results),
                "solver_time_s": round(sum(r.solver_s for r in self.results), 2),
                "paths_explored": sum(r.paths for r in self.results),
                "evaluations": len(self.results),
                "distinct_nontrivial": len(set(r.name for r in self.results)),
                "rule": getattr(self, "rule", None) or
                        "one evaluation = one verification obligation (a set of solver queries over symbolic inputs; obligations that list "
                        "queries=0 are ground comparisons of compiler-folded constants and say so); distinct = distinct obligation names",
                "samples": [{"obligation": r.name, "status": r.status, "queries": r.queries, "wall_s": round(r.wall_s, 2),
                             "sample": r.sample, "detail": r.detail[:200]} for r in self.results[:400]],
                "exhaustive": False,
            },
        }
        with open(os.path.join(EVIDENCE, "%s.json" % self.pid), "w") as f:
            json.dump(ev, f, indent=1, default=str)
        for l in lines:
            print(l)
        print("%s tier=%s obligations=%d proved=%d violated=%d known=%d inconclusive=%d wall=%.1fs" % (
            self.pid, self.tier, len(self.results), len(proved), nviol, len(known_hit), ninc, wall))
        if nviol:
            sys.exit(1)
        if ninc:
            sys.exit(2)
        sys.exit(0)
