"""Loop cutting for E-IR (DESIGN.md section 3.2, mode *loop-cut*).

A natural loop of a function is identified by its header block (the unique block of the function that is the target of a back
edge, found from the CFG of the IR of the current tree).  One run of the function then goes:
    entry ... first arrival at the header  -> `on_entry(regs)` (base case: the harness checks its invariant on this state)
                                           -> `havoc(regs)` overwrites the header's phis and the loop-carried memory by an
                                              arbitrary state satisfying the invariant (the harness adds the invariant to I.assumptions)
    one iteration ... arrival at the header again -> LoopCut is raised, the harness checks the invariant on the new state
    or the loop exits and the function returns -> the harness checks the post-condition.
"""
from . import eir
from .eir import ExecError


def successors(fn, label):
    ins = fn.blocks[label][-1]
    if ins.op == "br":
        return list(ins.extra)
    if ins.op == "switch":
        return [ins.extra[0]] + [l for _, l in ins.extra[1]]
    return []


def back_edges(fn):
    """[(latch, header)] by DFS from the entry block"""
    color = {}
    out = []
    stack = [(fn.order[0], iter(successors(fn, fn.order[0])))]
    color[fn.order[0]] = 1
    while stack:
        node, it = stack[-1]
        for s in it:
            c = color.get(s, 0)
            if c == 0:
                color[s] = 1
                stack.append((s, iter(successors(fn, s))))
                break
            if c == 1:
                out.append((node, s))
        else:
            color[node] = 2
            stack.pop()
    return out


def loop_bodies(fn):
    """{header: set of block labels of the natural loop}"""
    preds = {}
    for b in fn.order:
        for t in successors(fn, b):
            preds.setdefault(t, []).append(b)
    out = {}
    for latch, h in back_edges(fn):
        body = out.setdefault(h, {h})
        stack = [latch]
        while stack:
            n = stack.pop()
            if n in body:
                continue
            body.add(n)
            stack.extend(preds.get(n, []))
    return out


def find_header(fn, calls_substring):
    """the outermost loop whose body contains a call to a function whose name contains the substring"""
    best = None
    for h, body in loop_bodies(fn).items():
        hit = False
        for b in body:
            for ins in fn.blocks[b]:
                if ins.op == "call" and hasattr(ins.extra, "name") and calls_substring in ins.extra.name:
                    hit = True
        if hit and (best is None or len(body) > len(best[1])):
            best = (h, body)
    if best is None:
        raise ExecError("spec", "no loop of %s calls *%s*" % (fn.name, calls_substring))
    return best[0]


def header_phis(fn, header):
    return [ins for ins in fn.blocks[header] if ins.op == "phi"]


class Cutter:
    def __init__(self, I, fname, header=None):
        self.I = I
        self.fn = I.prog.fn[fname]
        be = back_edges(self.fn)
        heads = sorted(set(h for _, h in be))
        if header is None:
            if len(heads) != 1:
                raise ExecError("spec", "%s has %d loops; a header must be named" % (fname, len(heads)))
            header = heads[0]
        self.header = header
        self.latches = [l for l, h in be if h == header]
        self.visits = 0
        self.on_entry = None
        self.havoc = None
        I.phi_hook = self._hook

    def reset(self):
        self.visits = 0

    def _hook(self, I, fn, block, prev, regs):
        if fn is not self.fn or block != self.header:
            return
        self.visits += 1
        if self.visits == 1:
            if prev in self.latches:
                raise ExecError("spec", "first arrival at the loop header comes from a latch")
            if self.on_entry is not None:
                self.on_entry(regs)
            if self.havoc is not None:
                self.havoc(regs)
            return
        raise eir.LoopCut(fn, block, prev, regs)
