// Explicit instantiation of the word/field templates of /repo's headers, so that every member function of the
// real code is emitted into one IR module regardless of which of them the library's own TUs happen to use.
// Contains no code of its own.
#include "core/bigint.hpp"
#include "core/fp.hpp"
#include "core/fp_utils.hpp"
#include "bls12_381/fq.hpp"
#include "bls12_381/fr.hpp"

namespace embedded_pairing::core {
    template union BigInt<128>;
    template union BigInt<192>;
    template union BigInt<256>;
    template union BigInt<384>;
    template union BigInt<512>;
    template union BigInt<768>;
    template struct FpBase<256>;
    template struct FpBase<384>;
    template struct Fp<384, bls12_381::fq_modulus_var, bls12_381::fq_R_var, bls12_381::fq_R2_var, bls12_381::fq_inv_var>;
    template struct Fp<256, bls12_381::fr_modulus_var, bls12_381::fr_R_var, bls12_381::fr_R2_var, bls12_381::fr_inv_var>;
    template void fp_inverse<bls12_381::Fq>(bls12_381::Fq&, const bls12_381::Fq&);
    template void fp_inverse<bls12_381::Fr>(bls12_381::Fr&, const bls12_381::Fr&);
    template void exponentiate<bls12_381::Fr, BigInt<256> >(bls12_381::Fr&, const bls12_381::Fr&, const BigInt<256>&);
    template void exponentiate<bls12_381::Fq, BigInt<384> >(bls12_381::Fq&, const bls12_381::Fq&, const BigInt<384>&);
    // inline members of the non-template classes Fq/Fr are emitted only where they are used: exported pointers to them do that
    extern int (*jedi_verif_fq_compare)(const bls12_381::Fq&, const bls12_381::Fq&);
    int (*jedi_verif_fq_compare)(const bls12_381::Fq&, const bls12_381::Fq&) = &bls12_381::Fq::compare;
    extern void (bls12_381::Fq::*jedi_verif_fq_inverse)(const bls12_381::Fq&);
    void (bls12_381::Fq::*jedi_verif_fq_inverse)(const bls12_381::Fq&) = &bls12_381::Fq::inverse;
}
