// Explicit instantiation of scalar-multiplication templates of /repo's headers that the library's own TUs do not instantiate for every
// width the public API accepts (the tests call them).  Contains no code of its own.
#include "bls12_381/curve.hpp"
#include "bls12_381/wnaf.hpp"

namespace embedded_pairing::bls12_381 {
    template void Projective<Fq>::multiply_wnaf<G1Affine, core::BigInt<256>, 4u>(const G1Affine&, const core::BigInt<256>&);
    template void Projective<Fq>::multiply_wnaf<Projective<Fq>, core::BigInt<256>, 4u>(const Projective<Fq>&, const core::BigInt<256>&);
    template void Projective<Fq2>::multiply_wnaf<G2Affine, core::BigInt<256>, 4u>(const G2Affine&, const core::BigInt<256>&);
    // cofactor-width routines and the entry points that select them (instantiated by the library only where a cofactor is cleared)
    template void Projective<Fq>::multiply_wnaf<G1Affine, core::BigInt<128>, 4u>(const G1Affine&, const core::BigInt<128>&);
    template void Projective<Fq>::multiply_wnaf<G1, core::BigInt<128>, 4u>(const G1&, const core::BigInt<128>&);
    template void Projective<Fq2>::multiply_wnaf<G2Affine, core::BigInt<512>, 4u>(const G2Affine&, const core::BigInt<512>&);
    template void Projective<Fq2>::multiply_wnaf<G2, core::BigInt<512>, 4u>(const G2&, const core::BigInt<512>&);
    template void G1::multiply<G1Affine>(const G1Affine&, const core::BigInt<128>&);
    template void G1::multiply<G1>(const G1&, const core::BigInt<128>&);
    template void G2::multiply<G2Affine>(const G2Affine&, const core::BigInt<512>&);
    template void G2::multiply<G2>(const G2&, const core::BigInt<512>&);
    template void Affine<Fq, Fr, g1_b_coeff_var>::negate(const Affine<Fq, Fr, g1_b_coeff_var>&);
    template void Affine<Fq2, Fr, g2_b_coeff_var>::negate(const Affine<Fq2, Fr, g2_b_coeff_var>&);
    template void Projective<Fq>::multiply_doubleadd<G1Affine, core::BigInt<256> >(const G1Affine&, const core::BigInt<256>&, int);
    template void Projective<Fq>::multiply_doubleadd<Projective<Fq>, core::BigInt<256> >(const Projective<Fq>&, const core::BigInt<256>&, int);
    template void Projective<Fq2>::multiply_doubleadd<G2Affine, core::BigInt<256> >(const G2Affine&, const core::BigInt<256>&, int);
}
