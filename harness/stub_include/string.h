/* Minimal freestanding <string.h> for cross-target layout compilation of jedi-pairing headers (C19 layout TU only:
 * nothing here is executed or analysed; the four declarations are what include/core/bigint.hpp and curve.hpp use). */
#ifndef VERIF_STUB_STRING_H_
#define VERIF_STUB_STRING_H_
#include <stddef.h>
#ifdef __cplusplus
extern "C" {
#endif
void* memcpy(void* dst, const void* src, size_t n);
void* memmove(void* dst, const void* src, size_t n);
void* memset(void* dst, int c, size_t n);
int memcmp(const void* a, const void* b, size_t n);
#ifdef __cplusplus
}
#endif
#endif
