/* Native confirmation of C17 alignment findings (see checks/c17.py, replay_align).
 *
 * Linked against the current tree of the repo in which ONLY src/wkdibe/marshal.cpp is compiled with -fsanitize=alignment (recover mode).
 * The driver marshals and unmarshals a SecretKey with two free slots through the C++ API on a 16-aligned byte buffer and prints a PHASE
 * marker on stderr before each call; UBSan's "misaligned address" reports that follow a marker belong to that call.
 * The key's group elements are the generators; only the memory accesses matter here.
 */
#include <stdint.h>
#include <stdio.h>
#include <stdlib.h>
#include <string.h>

#include "wkdibe/api.hpp"

using namespace embedded_pairing;

template <bool compressed>
static void run(const char* tag) {
    wkdibe::SecretKey sk;
    wkdibe::FreeSlot slots[2];
    sk.a0.copy(bls12_381::G1::one);
    sk.a1.copy(bls12_381::G2::one);
    sk.bsig.copy(bls12_381::G1::one);
    sk.signatures = true;
    sk.l = 2;
    sk.b = slots;
    for (int i = 0; i != 2; i++) {
        slots[i].hexp.copy(bls12_381::G1::one);
        slots[i].idx = 0x01020304u + i;
    }
    size_t len = sk.getMarshalledLength<compressed>();
    uint8_t* buffer = static_cast<uint8_t*>(aligned_alloc(16, (len + 15) / 16 * 16));
    fprintf(stderr, "PHASE FreeSlot::marshal<%s>\n", tag);
    sk.marshal<compressed>(buffer);
    wkdibe::SecretKey out;
    wkdibe::FreeSlot outslots[2];
    out.b = outslots;
    int l = out.setLength<compressed>(buffer, len);
    fprintf(stderr, "PHASE FreeSlot::unmarshal<%s>\n", tag);
    bool ok = out.unmarshal<compressed>(buffer, true);
    fprintf(stderr, "PHASE end\n");
    printf("%s len=%zu l=%d ok=%d idx0=%08x idx1=%08x\n", tag, len, l, (int) ok, outslots[0].idx, outslots[1].idx);
    free(buffer);
}

int main(void) {
    run<true>("true");
    run<false>("false");
    return 0;
}
