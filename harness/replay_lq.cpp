// Native replay driver for C16 / C10 counterexamples (built on use from /repo's current tree with the Makefile's flags, see
// checks/natreplay.py).  One command per line on stdin:
//   lqibe <hex s>          master key = the 256-bit integer s (any value, not reduced), params = (P, [s]P) computed by plain double-and-add;
//                          keygen, encrypt, decrypt with a recording hash;  prints  SAME | DIFF <what>
//   g1rand <hex bytes>     G1::random_generator on the byte stream <bytes> followed by a fixed xorshift stream;  prints IDENTITY | NONZERO
//   pxrand <hex bytes>     PowersOfX::random on that stream;  prints  y=<hex> BELOW_R | NOT_BELOW_R
//   g1hash <hex 48 bytes>  G1Affine::from_hash;  prints x=<hex> y=<hex> (canonical integers)
#include <stdio.h>
#include <stdint.h>
#include <string.h>
#include <string>
#include <vector>
#include <iostream>
#include <sstream>

#include "bls12_381/fr.hpp"
#include "bls12_381/fq.hpp"
#include "bls12_381/curve.hpp"
#include "bls12_381/decomposition.hpp"
#include "lqibe/api.hpp"

using namespace embedded_pairing;
using namespace embedded_pairing::bls12_381;
using embedded_pairing::core::BigInt;

static int hexval(char c) { return c <= '9' ? c - '0' : (c | 32) - 'a' + 10; }

static std::vector<uint8_t> stream;
static size_t stream_pos = 0;
static uint64_t prng = 0x9e3779b97f4a7c15ULL;
static void stream_bytes(void* buffer, size_t len) {
    uint8_t* out = static_cast<uint8_t*>(buffer);
    for (size_t i = 0; i != len; i++) {
        if (stream_pos < stream.size()) { out[i] = stream[stream_pos++]; continue; }
        prng ^= prng >> 12; prng ^= prng << 25; prng ^= prng >> 27;
        out[i] = (uint8_t) ((prng * 0x2545f4914f6cdd1dULL) >> 56);
    }
}
static void set_stream(const std::string& h) {
    stream.clear(); stream_pos = 0; prng = 0x9e3779b97f4a7c15ULL;
    for (size_t i = 0; i + 1 < h.size(); i += 2) stream.push_back((uint8_t) (hexval(h[i]) * 16 + hexval(h[i + 1])));
}

static std::vector<uint8_t> last_in;
static size_t last_out_len;
static void rec_hash(void* out, size_t out_len, const void* in, size_t in_len) {
    const uint8_t* p = static_cast<const uint8_t*>(in);
    last_in.assign(p, p + in_len);
    last_out_len = out_len;
    memset(out, 0, out_len);
}

template <int bits> static std::string fmt_big(const BigInt<bits>& v) {
    std::string s;
    char b[3];
    for (int i = bits / 8 - 1; i >= 0; i--) { sprintf(b, "%02x", v.bytes[i]); s += b; }
    return s;
}

int main() {
    std::string line;
    while (std::getline(std::cin, line)) {
        std::istringstream is(line);
        std::string cmd, arg;
        is >> cmd >> arg;
        if (cmd == "lqibe") {
            uint8_t mk[32];
            memset(mk, 0, sizeof(mk));
            int n = (int) arg.size();
            for (int i = 0; i < n && i / 2 < 32; i++) mk[i / 2] |= (uint8_t) (hexval(arg[n - 1 - i]) << (4 * (i & 1)));
            lqibe::MasterKey msk;
            msk.unmarshal<true>(mk, true);
            // the integer the 32 bytes denote, taken from the bytes themselves (not from what unmarshal stored): it defines params and the expected key
            BigInt<256> sint; memcpy(&sint, mk, sizeof(mk));
            lqibe::Params params;
            params.p.copy(G2::one);
            params.sp.multiply_doubleadd(G2::one, sint);
            lqibe::IDHash h;
            for (int i = 0; i < 48; i++) h.hash[i] = (uint8_t) (17 * i + 3);
            lqibe::ID id;
            lqibe::compute_id_from_hash(id, h);
            lqibe::SecretKey sk;
            lqibe::keygen(sk, msk, id);
            G1 want; want.multiply_doubleadd(id.q, sint);
            G1Affine wanta; wanta.from_projective(want);
            bool sk_ok = G1Affine::equal(wanta, sk.sq);
            set_stream("");
            lqibe::Ciphertext ct;
            uint8_t k1[16], k2[16];
            lqibe::encrypt(ct, k1, sizeof(k1), params, id, rec_hash, stream_bytes);
            std::vector<uint8_t> e = last_in;
            lqibe::decrypt(k2, sizeof(k2), ct, sk, id, rec_hash);
            bool same = (e == last_in);
            if (same && sk_ok) printf("SAME\n");
            else printf("DIFF %s%s\n", sk_ok ? "" : "sk!=[s]Q ", same ? "" : "hash-input-of-decrypt!=hash-input-of-encrypt");
        } else if (cmd == "g1rand") {
            set_stream(arg);
            G1 g;
            g.random_generator(stream_bytes);
            printf("%s\n", g.is_zero() ? "IDENTITY" : "NONZERO");
        } else if (cmd == "pxrand") {
            set_stream(arg);
            PowersOfX px;
            BigInt<256> y;
            px.random(y, stream_bytes);
            printf("y=%s %s\n", fmt_big(y).c_str(), BigInt<256>::compare(y, Fr::p_value) == -1 ? "BELOW_R" : "NOT_BELOW_R");
        } else if (cmd == "g1hash") {
            set_stream(arg);
            uint8_t hb[48];
            stream_bytes(hb, 48);
            G1Affine p;
            p.from_hash(hb);
            BigInt<384> x, y;
            p.x.get(x); p.y.get(y);
            printf("x=%s y=%s\n", fmt_big(x).c_str(), fmt_big(y).c_str());
        } else if (!cmd.empty()) {
            printf("ERR unknown command\n");
        }
        fflush(stdout);
    }
    return 0;
}
