// Explicit instantiation of BigInt<384> / FpBase<384> for the ARMv6-M configuration (compiled with --target=thumbv6m-none-eabi,
// where include/core/arch/armv6_m/*.hpp specialise add/subtract/shift_left_in_word<1>/multiply/square/montgomery_reduce to the
// assembly routines), so that the generic C++ that sits on top of the assembly is emitted into one IR module.
// Contains no code of its own.
#include "core/bigint.hpp"
#include "core/fp.hpp"

namespace embedded_pairing::core {
    template union BigInt<384>;
    template struct FpBase<384>;
}
