// Explicit instantiation of the division-free target-group exponentiation templates of /repo's fq12.hpp (the library itself does not
// instantiate them; the tests and C++ callers do).  Contains no code of its own.
#include "bls12_381/fq12.hpp"

namespace embedded_pairing::bls12_381 {
    template void Fq12::exponentiate_restrict_cyclotomic_nodiv<core::BigInt<256> >(const Fq12&, const core::BigInt<256>&);
    template void Fq12::exponentiate_gt_nodiv<core::BigInt<256> >(const Fq12&, const core::BigInt<256>&);
}
