// Native replay driver: reads one command per line on stdin, runs the real library function, prints hex results.
// Built on every use from /repo's current tree with the Makefile's flags (see engine/replay.py).
#include <stdio.h>
#include <stdlib.h>
#include <string.h>
#include <string>
#include <vector>
#include <sstream>
#include <iostream>

#include "bls12_381/fq.hpp"
#include "bls12_381/fr.hpp"
#include "bls12_381/fq2.hpp"
#include "bls12_381/fq6.hpp"
#include "bls12_381/fq12.hpp"
#include "bls12_381/curve.hpp"
#include "bls12_381/pairing.hpp"
#include "bls12_381/wnaf.hpp"
#include "bls12_381/decomposition.hpp"

using namespace embedded_pairing;
using namespace embedded_pairing::bls12_381;
using embedded_pairing::core::BigInt;

static int hexval(char c) { return c <= '9' ? c - '0' : (c | 32) - 'a' + 10; }

template <int bits>
static void parse_big(BigInt<bits>& out, const std::string& h) {
    // h: big-endian hex, any length up to bits/4
    memset(&out, 0, sizeof(out));
    int n = (int) h.size();
    for (int i = 0; i < n; i++) {
        int nib = hexval(h[n - 1 - i]);
        if (i / 2 < BigInt<bits>::byte_length) out.bytes[i / 2] |= (uint8_t) (nib << (4 * (i & 1)));
    }
}

template <int bits>
static std::string fmt_big(const BigInt<bits>& v) {
    char buf[bits / 4 + 1];
    for (int i = 0; i < bits / 8; i++) sprintf(buf + 2 * i, "%02x", v.bytes[bits / 8 - 1 - i]);
    return std::string(buf);
}

static void fq_from_hex(Fq& out, const std::string& h) { BigInt<384> v; parse_big(v, h); out.set(v); }
static std::string fq_to_hex(const Fq& a) { BigInt<384> v; a.get(v); return fmt_big(v); }

// a tower element of level L is 2^(L>0) * 3^(L>1) * 2^(L>2) Fq coefficients in memory order
template <typename T> static void el_from_hex(T& out, const std::string& h) {
    Fq* c = reinterpret_cast<Fq*>(&out);
    size_t n = sizeof(T) / sizeof(Fq);
    for (size_t i = 0; i < n; i++) fq_from_hex(c[i], h.substr(96 * i, 96));
}
template <typename T> static std::string el_to_hex(const T& a) {
    const Fq* c = reinterpret_cast<const Fq*>(&a);
    std::string s;
    for (size_t i = 0; i < sizeof(T) / sizeof(Fq); i++) s += fq_to_hex(c[i]);
    return s;
}

template <typename T>
static bool tower_common(const std::string& m, int alias, unsigned power, std::vector<std::string>& in, std::string& res) {
    // alias bit i set: output object is input i's object
    T a, b, out;
    el_from_hex(a, in[0]);
    if (in.size() > 1 && in[1].size() == 2 * sizeof(T) / sizeof(Fq) * 48) el_from_hex(b, in[1]);
    T* po = &out;
    T* pa = &a;
    T* pb = &b;
    if (alias & 1) po = pa;
    if (alias & 2) { if (alias & 1) pb = pa; else po = pb; }
    if (m == "add") po->add(*pa, *pb);
    else if (m == "subtract") po->subtract(*pa, *pb);
    else if (m == "multiply") po->multiply(*pa, *pb);
    else if (m == "square") po->square(*pa);
    else if (m == "multiply2") po->multiply2(*pa);
    else if (m == "negate") po->negate(*pa);
    else if (m == "copy") po->copy(*pa);
    else if (m == "inverse") po->inverse(*pa);
    else if (m == "frobenius_map") po->frobenius_map(*pa, power);
    else return false;
    res = el_to_hex(*po);
    return true;
}

static std::string run_tower(int level, const std::string& m, int alias, unsigned power, std::vector<std::string>& in) {
    std::string res;
    if (level == 1) {
        if (tower_common<Fq2>(m, alias, power, in, res)) return res;
        Fq2 a, out; el_from_hex(a, in[0]); Fq2* po = (alias & 1) ? &a : &out;
        if (m == "multiply_by_nonresidue") { po->multiply_by_nonresidue(a); return el_to_hex(*po); }
        if (m == "square_root") { out.square_root(a); return el_to_hex(out); }
        if (m == "legendre") { return std::to_string(a.legendre()); }
    } else if (level == 2) {
        if (tower_common<Fq6>(m, alias, power, in, res)) return res;
        Fq6 a, out; el_from_hex(a, in[0]); Fq6* po = (alias & 1) ? &a : &out;
        if (m == "multiply_by_nonresidue") { po->multiply_by_nonresidue(a); return el_to_hex(*po); }
        if (m == "multiply_by_c1") { Fq2 c1; el_from_hex(c1, in[1]); po->multiply_by_c1(a, c1); return el_to_hex(*po); }
        if (m == "multiply_by_c01") { Fq2 c0, c1; el_from_hex(c0, in[1]); el_from_hex(c1, in[2]); po->multiply_by_c01(a, c0, c1); return el_to_hex(*po); }
    } else if (level == 3) {
        if (tower_common<Fq12>(m, alias, power, in, res)) return res;
        Fq12 a, out; el_from_hex(a, in[0]); Fq12* po = (alias & 1) ? &a : &out;
        if (m == "conjugate") { po->conjugate(a); return el_to_hex(*po); }
        if (m == "square_cyclotomic") { po->square_cyclotomic(a); return el_to_hex(*po); }
        if (m == "map_to_cyclotomic") { po->map_to_cyclotomic(a); return el_to_hex(*po); }
        if (m == "multiply_by_c014") { Fq2 c0, c1, c4; el_from_hex(c0, in[1]); el_from_hex(c1, in[2]); el_from_hex(c4, in[3]);
            po->multiply_by_c014(a, c0, c1, c4); return el_to_hex(*po); }
    }
    return "ERR unknown tower method";
}

#include "driver_ext.inc"

int main() {
    std::string line;
    while (std::getline(std::cin, line)) {
        std::istringstream ss(line);
        std::vector<std::string> tok;
        std::string t;
        while (ss >> t) tok.push_back(t);
        if (tok.empty()) continue;
        std::string out;
        if (tok[0] == "tower" && tok.size() >= 6) {
            std::vector<std::string> in(tok.begin() + 5, tok.end());
            out = run_tower(atoi(tok[1].c_str()), tok[2], atoi(tok[3].c_str()), (unsigned) strtoul(tok[4].c_str(), 0, 10), in);
        } else if (!run_ext(tok, out)) {
            out = "ERR unknown command";
        }
        printf("%s\n", out.c_str());
        fflush(stdout);
    }
    return 0;
}
