#!/usr/bin/env python3
"""Regenerates /verif/MANIFEST.json from the table below (kept next to the checks so the two stay in step)."""
import json
import os

V = os.path.dirname(os.path.dirname(os.path.abspath(__file__)))

TECH = "symbolic execution of clang-14 LLVM IR (own interpreter) + z3 SMT queries"

CHECKS = {
    "C04": dict(
        cat="proof",
        text="Every Fq2/Fq6/Fq12 method is symbolically executed from the IR of the current tree over free field indeterminates and "
             "z3 decides output == schoolbook quotient-ring arithmetic as polynomial identities mod q; no operand bound, no loop bound "
             "(no data-dependent loops); Frobenius for all 2^32 powers. Counterexamples are replayed on the native build.",
        note="Trusted: Fq layer exactness (C02/C03), Z[x]->Fq[x] transfer, Frobenius automorphism facts, clang -O1 vs -Ofast, z3.",
        tech="LLVM-IR symbolic execution, polynomial-identity VCs mod q in z3 (QF_NIA), bit-vector VCs for table indices",
        ref="5/C04"),
    "C05": dict(
        cat="proof",
        text="Jacobian add, mixed add, doubling, negation, equality, is_zero and affine<->projective conversion of G1 and G2 are symbolically "
             "executed from the IR for every case parametrisation {O+O,O+Q,P+O,P+P,P+(-P),x1!=x2,y=0} x every representation {z free, z=1, z=0 "
             "with free x,y, affine}; branches are decided by identities / solver-checked factor certificates; results are compared with the "
             "chord-and-tangent law as cross-multiplied polynomial identities mod q in z3. No operand bound.",
        note="Trusted: chord-and-tangent law is the group law and the case split is exhaustive on a curve (T4); base field exact (C02/C04); z3.",
        tech="LLVM-IR symbolic execution over a ring of indeterminates, case parametrisation, polynomial-identity VCs mod q in z3",
        ref="5/C05"),
    "C18": dict(
        cat="proof",
        text="Aliasing patterns permitted by each signature are enumerated from the IR (non-noalias parameters of the output's type); every "
             "(function, pattern) of Fq2/Fq6/Fq12 and of the G1/G2 point operations is symbolically executed with the output object being the "
             "input object and z3 decides equality with the specification for all operand values; __restrict misuse between layers is an "
             "interpreter assertion. Violations are replayed natively.",
        note="Word layer (BigInt/Fp res==a) is covered by C03; C wrappers by C19. Whole-object aliasing only.",
        tech="LLVM-IR symbolic execution under each aliasing configuration, polynomial-identity VCs mod q in z3",
        ref="5/C18"),
}

NOT_APPLICABLE = {
}

PENDING_REASON = "check not built yet in this round (see DESIGN.md section 9 build order); no claim is made"


def main():
    props = [json.loads(l)["id"] for l in open(os.path.join(V, "properties.jsonl"))]
    checks = []
    na = []
    for pid in props:
        c = CHECKS.get(pid)
        if c is None:
            na.append({"property_id": pid, "reason": NOT_APPLICABLE.get(pid, PENDING_REASON)})
            continue
        checks.append({
            "property_id": pid,
            "quick_cmd": "./check %s --tier quick" % pid,
            "thorough_cmd": "./check %s --tier thorough" % pid,
            "evidence_file": "evidence/%s.json" % pid,
            "replay_cmd_template": "./check %s --replay {path}" % pid,
            "engine": "eir",
            "level_claimed": {"category": c["cat"], "text": c["text"], "design_ref": c["ref"]},
            "level_note": c["note"],
            "technique": c.get("tech", TECH),
        })
    m = {
        "version": 1,
        "setup_cmd": "python3-vt -c 'import z3; print(z3.get_version_string())' && clang++-14 --version | head -1",
        "hooks": {
            "guard": "JEDI_PAIRING_VERIF",
            "enable": "checks compile /repo's sources with -DJEDI_PAIRING_VERIF (no hook is currently present in /repo)",
            "baseline_off_cmd": "sh /verif/tools/baseline_off.sh",
            "source_commits": [],
            "add_only": True,
        },
        "engines": [
            {"name": "eir", "path": "engine/", "serves_properties": sorted(CHECKS),
             "kind_free_text": "own symbolic interpreter for clang-14 LLVM IR and assembly, value domains over z3 (bit-vectors, "
                               "integer polynomials mod q, linear integer arithmetic), native replay of counterexamples"},
        ],
        "checks": checks,
        "not_applicable": na,
        "notes": "All checks regenerate their encoding from /repo's working tree on every run. Exit 0 = all obligations discharged "
                 "(or only known findings), 1 = VIOLATION (reproduced natively), 2 = inconclusive (solver/engine gave no verdict).",
    }
    with open(os.path.join(V, "MANIFEST.json"), "w") as f:
        json.dump(m, f, indent=1)
    print("wrote MANIFEST.json: %d checks, %d not_applicable" % (len(checks), len(na)))


if __name__ == "__main__":
    main()
