#!/usr/bin/env python3
"""Regenerates /verif/MANIFEST.json from the table below (kept next to the checks so the two stay in step)."""
import json
import os

V = os.path.dirname(os.path.dirname(os.path.abspath(__file__)))

TECH = "symbolic execution of clang-14 LLVM IR (own interpreter) + z3 SMT queries"

CHECKS = {
    "C01": dict(
        cat="proof",
        text="Five groups of obligations whose conjunction with Vercauteren's optimal-ate theorem (trusted) is the property. (1) miller_doubling_step / "
             "miller_addition_step are symbolically executed over a ring of Fq2 indeterminates: z3 decides that the running point becomes 2T / T+Q "
             "(chord-and-tangent law, cross-multiplied) and that the coefficient triple is kappa*(1, -lambda, lambda*x - y) with kappa certified non-zero, i.e. "
             "the untwisted line at P up to a subfield factor; `ell` multiplies the accumulator by exactly c + (b x_P) v + (a y_P) v w. (2) the single-pair "
             "Miller loops (affine and prepared) are executed in full with uninterpreted step kernels and symbolic identity flags: the exponent map of line "
             "values equals the textbook loop for the signed x, conjugated. (3) final_exponentiation executed over exponents mod q^12-1 applies exactly "
             "3(q^12-1)/r. (4) a definition-level reference pairing (affine arithmetic over Fq12 = Fq[w]/(w^12-2w^6+2), no shared formulas) of the published "
             "generators equals the exported constant and the native pairing. No bound on P, Q.",
        note="Bilinearity in 256-bit scalars, e=1 iff an operand is the identity and e^r=1 follow from (1)-(4) + T8 + C06; they are not re-derived. Points outside the order-r subgroups are outside the claim.",
        tech="LLVM-IR symbolic execution: polynomial-identity VCs mod q in z3 for the step kernels, uninterpreted-kernel trace/exponent-map equality for the loop, exact exponent arithmetic for the final exponentiation; independent reference oracle + native run for the generator value",
        ref="5/C01"),
    "C02": dict(
        cat="proof",
        text="The real BigInt/FpBase/Fp templates and Fq/Fr code are lowered to IR from the current tree and executed symbolically: add, subtract, "
             "double, negate, reduce, compare, equality, bit/shift/byte I/O and hash reduction over 256/384-bit bit-vectors (z3 QF_BV decides "
             "result == integer arithmetic mod p, result < p, on every path, for all operands below p); full product, square and Montgomery "
             "reduction over affine integer forms with opaque word products (z3 QF_LIA decides the product identity and T*2^N = a + U*p, T < 2p "
             "for every input below p*2^N). The Fp layer is shown to forward to these kernels with the field's own modulus/inverse word, and the "
             "constants R, R^2, -p^-1, one, negative_one are ground-checked. Fr (all configurations use the generic code), Fq in the portable "
             "64-bit and (thorough) 32-bit configurations; Fq in the shipped x86-64 build is the assembly decided by C03 plus the forwarding glue here. "
             "Word loops have concrete trip counts and run in full. Data-dependent loops: fp_inverse<Fq|Fr> is cut into segments at its loop and comparison blocks; "
             "every segment, run from an ARBITRARY state (u,v,b,c) under block invariants that are themselves inferred (Houdini) and proved, realises one of "
             "{halve-u, halve-v, u-=v, v-=u, unchanged} consistently on (u,v) and on (b,c) mod p, keeps b,c < p, loses no carry, and exits with the right "
             "component (inverse(0) = 0); exponentiate_restrict by loop cut (E' = 2E + bit_i); legendre raises to (p-1)/2 and maps {0,1,else}; "
             "Fq::square_root raises to (q+1)/4.",
        note="Fr::square_root (Tonelli-Shanks; called by nothing in the library) and termination of fp_inverse are outside. Random sampling is in C10. "
             "Trusted: Montgomery uniqueness (T1), binary-Euclid lifting (T2), T5, clang -O1 vs -Ofast, z3.",
        tech="LLVM-IR symbolic execution; QF_BV VCs for linear kernels, QF_LIA VCs (affine substitution form, opaque word products) for products and Montgomery reduction",
        ref="5/C02"),
    "C03": dict(
        cat="proof",
        text="Each routine of the x86-64 baseline assembly, the x86-64 BMI2/ADX assembly (instruction stream produced by the assembler from the "
             "current .s files), the AArch64 assembly (instruction stream of the .s files assembled for aarch64 by clang and read back with llvm-objdump), the ARMv6-M Thumb-1 assembly (GNU-as sources macro-expanded by our reader, cross-checked instruction by instruction against clang's thumbv6m assembler), the portable 64-bit-word C++ and the portable 32-bit-word C++ (IR of the current tree) is symbolically executed "
             "and proved equal, for all operand values, to one shared integer specification per kernel (sum, carry/borrow, modular sum/difference/"
             "double, full 768-bit product and square, Montgomery reduction below p*2^384), with output aliasing the first operand or not; the "
             "CPUID dispatch table is shown to be all-baseline or all-BMI2. Bit-identity across back ends follows from equality with the same function. "
             "Counterexamples are replayed natively (both x86 variants are callable by symbol on this host; portable builds are rebuilt); AArch64 counterexamples "
             "are replayed in the interpreter's concrete mode only (no AArch64 hardware or emulator here).",
        note="AArch64 and ARMv6-M results cannot be replayed on hardware or an emulator here (interpreter-level replay only). "
             "Trusted: x86-64 / AArch64 / ARMv6-M instruction semantics as implemented in engine/easm_x86.py, engine/easm_a64.py and engine/easm_t1.py, the assembler/disassembler, Montgomery uniqueness, z3.",
        tech="symbolic execution of the x86-64, AArch64 and ARMv6-M instruction streams and of LLVM IR over affine integer forms; QF_LIA / QF_BV VCs in z3; native replay",
        ref="5/C03"),
    "C04": dict(
        cat="proof",
        text="Every Fq2/Fq6/Fq12 method is symbolically executed from the IR of the current tree over free field indeterminates and "
             "z3 decides output == schoolbook quotient-ring arithmetic as polynomial identities mod q; no operand bound, no loop bound "
             "Frobenius for all 2^32 powers. map_to_cyclotomic over exponents mod q^12-1 equals (q^6-1)(q^2+1); square_cyclotomic = square on the "
             "cyclotomic subgroup via 12 solver-checked ideal-membership certificates against the 24 defining relations (finder untrusted); Fq2 norm, "
             "Legendre symbol, square root (conformance with Algorithm 9 over uninterpreted operations, exponents ground-checked) and the generic "
             "exponentiation loop (loop cut). Counterexamples are replayed on the native build.",
        note="Byte I/O component order of Fq2/Fq6/Fq12 is decided in C15 (fq12-io obligation). Trusted: Fq layer exactness (C02/C03), Z[x]->Fq[x] transfer, Frobenius automorphism facts, T5 for the square root, clang -O1 vs -Ofast, z3.",
        tech="LLVM-IR symbolic execution, polynomial-identity VCs mod q in z3 (QF_NIA), bit-vector VCs for table indices",
        ref="5/C04"),
    "C05": dict(
        cat="proof",
        text="Jacobian add, mixed add, doubling, negation, equality, is_zero and affine<->projective conversion of G1 and G2 are symbolically "
             "executed from the IR for every case parametrisation {O+O,O+Q,P+O,P+P,P+(-P),x1!=x2,y=0} x every representation {z free, z=1, z=0 "
             "with free x,y, affine}; branches are decided by identities / solver-checked factor certificates; results are compared with the "
             "chord-and-tangent law as cross-multiplied polynomial identities mod q in z3. No operand bound.",
        note="Trusted: chord-and-tangent law is the group law and the case split is exhaustive on a curve (T4); base field exact (C02/C04); z3.",
        tech="LLVM-IR symbolic execution over a ring of indeterminates, case parametrisation, polynomial-identity VCs mod q in z3",
        ref="5/C05"),
    "C06": dict(
        cat="proof",
        text="Signed-digit recoding WnafScalar<bits,w>::from_bigint for (bits,w) in {(64,2),(128,4),(256,4),(512,4)}: the data-dependent loop is cut "
             "at its header; one iteration is symbolically executed from an arbitrary state (first iteration: any c; later: any index i in [1,bits] "
             "symbolic and any c allowed by the invariant) and z3 (QF_BV) decides that the emitted digit is the residue of c in (-2^w,2^w], is "
             "stored at wnaf[i] only, that c' = (c-u)/2 exactly over the integers (no carry of the multi-word update lost), index and exit "
             "handling; integer lemmas (z3, per index i and ghost t) show the invariant inductive, bound the index by bits (buffer wnaf[bits+1]) "
             "and give exactness sum wnaf[j]2^j = scalar at exit. Loop bound: none (induction). Counterexamples of the first iteration are "
             "replayed natively (multiply_wnaf vs double-and-add).",
        note="Claimed so far: the recoding (all scalars of each width, incl. 2^bits-1). The scalar decompositions and the group loops are further "
             "obligations of this check when present in the evidence (names glv:*, powersofx:*, loop:*); what is not listed there is not claimed.",
        tech="LLVM-IR symbolic execution with loop cutting (one inductive step from an arbitrary invariant state); QF_BV VCs and integer lemmas in z3; native replay",
        ref="5/C06"),
    "C07": dict(
        cat="proof",
        text="PowersOfX::decompose is executed over affine integer words (QF_LIA, the word divisions by |x| as quotient/remainder variables): for every 256-bit y the "
             "four digits recombine to y modulo r and each fits 64 bits (dropped quotient words provably zero). Fq12::exponentiate_gt(PowersOfX): the bases are shown "
             "to be a^(|x|^j) (exponents mod r), and the 64-iteration loop is cut at its header: from an arbitrary state (index, accumulator a^E, flag, invariant "
             "not found_one => E = 0) with the four bits symbolic, one iteration gives E' = 2E + sum bit_j |x|^j, tests bit position i of each digit, decrements i, "
             "exits exactly after position 0 - by induction the result is a^(sum c_j |x|^j) = a^k. exponentiate_gt(BigInt) / exponentiate_gt_div / random_gt are "
             "shown to be decompose resp. PowersOfX::random followed by exponentiate_gt with that same scalar.",
        note="a of order r (exponent arithmetic mod r; a^q = a^x: T7). square_cyclotomic / inverse: C04. The sampling loop of PowersOfX::random (y uniform in [0,r), digits consistent with y) is obligation "
             "'powersofx-random' when present in the evidence (shared with C10). 32-bit-word bit-serial division not covered.",
        tech="LLVM-IR symbolic execution: QF_LIA VCs over affine words for the decomposition; loop cutting with one inductive step (integer VCs in z3) for the exponentiation; call-trace conformance",
        ref="5/C07"),
    "C08": dict(
        cat="proof",
        text="miller_loop (general and both single-pair overloads), G2Prepared::prepare and the pairing / pairing_product wrappers are executed from the IR with the "
             "step kernels as uninterpreted recorders, every G1/G2 identity flag symbolic and every prepared pair's private cursor holding symbolic garbage: on "
             "every path the accumulator's exponent map equals the sum of the single-pair textbook maps of exactly the pairs with two finite members (identity "
             "pairs contribute nothing wherever they stand), conjugated once; prepare emits the 68 triples the loop consumes, in order (= num_coeffs = "
             "coeffs[68]); the wrappers apply final_exponentiation once, in place. List lengths n,m in {0,1,2} (quick) / {0..3} (thorough).",
        note="Bound: list lengths as stated (loops over pairs are uniform in the index but are not cut inductively). Trusted: step kernels (C01.1), final exponentiation is a homomorphism (C01.3).",
        tech="LLVM-IR symbolic execution with uninterpreted step kernels; path exploration over symbolic identity flags (z3 feasibility); exponent-map equality",
        ref="5/C08"),
    "C09": dict(
        cat="proof",
        text="Encoding<G1Affine|G2Affine, compressed|uncompressed>::encode/decode are executed symbolically from the IR with every one of the 48/96/192 bytes a "
             "symbolic bit-vector and coordinates as canonical 384-bit integers; byte-level field functions carry their exact specifications (mask to 381 bits "
             "and reduce, big-endian bytes, negation, order of internal representations), algebraic ones (square, multiply, add, legendre, square root, subgroup "
             "test) are uninterpreted functions constrained by the sqrt contract, absence of zero divisors and odd group order. z3 decides: decode(encode(P)) = "
             "(true, P) for every point/identity, checked and unchecked, all four forms; for EVERY byte string, checked decode accepts only if re-encoding the "
             "result reproduces the bytes exactly (canonicity: rejects unreduced coordinates, stray flag bits, wrong form, malformed identity) and the result "
             "passed the curve/subgroup tests. Counterexample patterns are transplanted onto a real point and replayed natively.",
        note="Trusted: specifications of the intercepted field functions (C02/C04), is_on_curve (C05), subgroup test = [r]P (C06), T5. Both forms describing the same point follows from the two round trips.",
        tech="LLVM-IR symbolic execution with symbolic bytes (QF_BV) and uninterpreted field operations with instantiated axioms (QF_UFBV) in z3; native replay",
        ref="5/C09"),
    "C10": dict(
        cat="proof",
        text="zp_from_hash over 32 symbolic bytes (bit-vectors): result = (int(h) mod 2^255) mod r < r. get_point_from_x (G1/G2, checked/unchecked) over uninterpreted "
             "field functions with the sqrt contract: fails iff the residue test is on and legendre(x^3+b) = -1, else returns (x, +-sqrt(x^3+b)) on the curve with "
             "the requested sign. try_and_increment: loop cut at its header - candidates start, start+1, ... are tried once each, stopping at the first success; "
             "from_hash: hash_reduce composition. compute_id_from_hash: from_hash then multiplication by G1Affine::cofactor through the 128-bit w-NAF path; ground: "
             "cofactors equal their formulas in x and cofactor*r is the curve order. Sampling: the rejection loops of Fr::random, Fq::random, PowersOfX::random and "
             "sample_random_generator are cut (retry independence is checked, not assumed): on exit the value is the masked draw below its modulus; PowersOfX::random: "
             "every digit < |x|, y = sum c_j|x|^j exactly, y < r, digits -> y injective; random_generator: result = [cofactor]*(curve point), re-tested for identity "
             "after clearing the cofactor. The random callback is a stub writing exactly n fresh symbolic bytes at an in-bounds pointer.",
        note="Totality (termination) of try-and-increment and of the rejection loops is outside the claim; uniformity follows from injectivity + rejection (paper step). "
             "Observation recorded in DESIGN.md: in from_hash the 'greater' choice is constant false (the top bits are masked before hash_reduce looks at them).",
        tech="LLVM-IR symbolic execution: QF_BV for byte/word code, uninterpreted field functions with instantiated axioms, loop cutting (header cut and retry cut), integer lemmas in z3; native replay",
        ref="5/C10"),
    "C11": dict(
        cat="proof",
        text="src/wkdibe/api.cpp is executed symbolically from the IR with the group layer replaced by formal discrete logarithms (polynomials in "
             "formal symbols for randomness and sampled generators, integer-term coefficients for attribute values). Histories by induction: "
             "keygen / nondelegable_keygen from setup's post-state (base) and qualifykey / nondelegable_qualifykey / resamplekey from an ARBITRARY "
             "well-formed key (step) yield exactly the well-formed key of the accumulated pattern (a0, a1, bsig, the ascending free-slot list and "
             "its count, array bounds as the bindings allocate them); decrypt(encrypt(m)) = m and decrypt_master for every well-formed key; setup "
             "establishes the parameter relation. z3 decides every coefficient comparison modulo r for all 256-bit attribute values. Slot shapes "
             "(parent pattern x documented list shape x flags) are enumerated for l <= 3 (quick) / 4 (thorough).",
        note="Bound: l <= 4 by enumeration of shapes; values, randomness and history length unbounded. Trusted: the group layer's specification (C01, C05-C08), "
             "independence of sampled scalars/generators (formal symbols). Key distribution beyond 'rho contains a fresh uniform term' is not analysed.",
        tech="LLVM-IR symbolic execution over formal discrete logarithms (D-GRP); induction over delegation histories; integer VCs modulo r in z3; native replay",
        ref="5/C11"),
    "C12": dict(
        cat="proof",
        text="encrypt, decrypt and the delegation steps are executed symbolically from the IR over formal discrete logarithms; the decryption residual is a "
             "polynomial with integer-term coefficients. z3 decides, for all 256-bit attribute values: residual = 0 for matching patterns; 'residual = 0' is "
             "unsatisfiable together with 'the ciphertext list differs from the key's fixed pattern modulo r in some slot' (other value, extra value in a free "
             "or hidden slot, missing value; list entries with or without the omit marker); after one qualifykey / nondelegable_qualifykey / adjust_nondelegable "
             "step with ANY list (including lists that assign the hidden slot) a key hiding slot i neither lists slot i as free nor decrypts a ciphertext with "
             "slot i set; replacing a, b or c of a ciphertext by an independent element changes the result. Shapes enumerated for l <= 3 (quick) / 4 (thorough).",
        note="Negative statements are in the generic-group sense (non-zero residual polynomial); values congruent to 0 mod r count as unset. Longer delegation sequences "
             "with documented lists follow from C11's induction.",
        tech="LLVM-IR symbolic execution over formal discrete logarithms (D-GRP); satisfiability of residual-coefficient equations modulo r in z3",
        ref="5/C12"),
    "C13": dict(
        cat="proof",
        text="sign, sign_precomputed, verify, verify_precomputed, precompute are executed symbolically from the IR over formal discrete logarithms; verify's verdict "
             "becomes a z3 formula over the 256-bit message and attribute values. Positive: valid for every well-formed key (signatures on), every extension list "
             "using only free slots (entries with/without the omit marker), direct, precomputed and attrs==nullptr forms. Negative (generic-group sense): "
             "unsatisfiable together with 'message differs mod r', 'a list value differs / is dropped / is added mod r', for a key whose pattern is incompatible "
             "with the list (hidden slot set, fixed slot with another value), and when a0 or a1 is replaced by an independent element. l <= 3 (quick; negatives l <= 2) / 4.",
        note="Trusted: group layer specification; C11 for reachability of well-formed keys only.",
        tech="LLVM-IR symbolic execution over formal discrete logarithms (D-GRP); validity / unsatisfiability of the verification equation modulo r in z3",
        ref="5/C13"),
    "C14": dict(
        cat="proof",
        text="adjust_precomputed, adjust_nondelegable, precompute and the precomputed/direct forms of encrypt, sign and verify are executed symbolically "
             "from the IR over formal discrete logarithms. z3 decides, for all 256-bit attribute values (the word-level id subtraction with its "
             "borrow is inside the query), that adjust_precomputed(precompute(from), from->to) = precompute(to) for every ordered pair of list "
             "shapes (l <= 3 quick / 4 thorough), that adjust_nondelegable applied to the well-formed key for `from` yields component for component "
             "(a0, a1, bsig, slot list, count) the well-formed key for `to` for every parent pattern x ordered pair of documented list shapes x "
             "omit-all flags (l <= 2 quick / 3 thorough), and that direct and precomputed encryption/signing/verification agree.",
        note="Chains of adjustments follow because each adjustment lands exactly on the from-scratch value. Hidden list entries carry id 0 as the bindings produce them. "
             "Trusted: group layer specification, C11 for 'the key for from is well-formed'.",
        tech="LLVM-IR symbolic execution over formal discrete logarithms (D-GRP) with integer-term attribute values; VCs modulo r in z3; native replay",
        ref="5/C14"),
    "C15": dict(
        cat="proof",
        text="Every marshal/unmarshal/length function of WKD-IBE (Params, MasterKey, SecretKey, Ciphertext, Signature, FreeSlot) and LQ-IBE, compressed and uncompressed, "
             "is executed symbolically from the IR with element encodings as injective tokens (C09's contract) and decode outcomes as free Booleans. z3 proves the "
             "length functions exact for symbolic l (32 bit), length (64 bit) and first byte: unmarshalled_length(marshalled_length(l,sig)) = l, -1 for every other "
             "length, injectivity, set_length/get_marshalled_length consistency, no signed overflow. For l = 0..3 (quick) / 0..6 (thorough) x signatures on/off: "
             "marshal writes exactly the bytes [0, reported length) of an exact-size buffer; the free-slot index is big-endian for all 2^32 values; "
             "unmarshal(marshal(o)) reproduces every field (checked and unchecked; compressed Params: recomputed pairing = e(g2,g1)); unmarshal returns true iff "
             "every embedded decode on the path did, and each decode receives the caller's `checked` flag.",
        note="Bound: slot counts as stated (loops unrolled). Go-side marshalling is out of scope (no Go toolchain). Beyond 2^31 slots the int truncation of unmarshalledLength is outside the claim.",
        tech="LLVM-IR symbolic execution with token models of the encodings; QF_BV VCs for the length arithmetic and byte order; path exploration over decode outcomes",
        ref="5/C15"),
    "C16": dict(
        cat="proof",
        text="lqibe setup, keygen, encrypt, decrypt and compute_id_from_hash are executed symbolically from the IR over formal discrete logarithms with the caller's hash "
             "callback as an uninterpreted recorder: for every 32-byte master key (256-bit vector, unreduced; the scalar-level code runs for real), every 48-byte "
             "identity hash and every requested length (symbolic 64-bit), sk = [s]Q_id and the record (pointer, length, tokens with offsets: encoded identity, encoded "
             "ciphertext point, pairing value) that decrypt hands to the hash equals encrypt's; negatives (generic-group sense): another identity, another master "
             "scalar mod r, or an altered ciphertext makes 'all hashed components equal' unsatisfiable; the hash buffer struct has no padding and is hashed entirely.",
        note="Trusted: group layer specification, injectivity of the encodings (C09), independence of hash-derived points (formal symbols). Assumes s not congruent to 0 mod r for the negative statements.",
        tech="LLVM-IR symbolic execution over formal discrete logarithms (D-GRP) with bit-vector scalars; uninterpreted hash recorder; z3 validity / unsatisfiability queries; native replay",
        ref="5/C16"),
    "C17": dict(
        cat="proof",
        text="Part 1 (parsers of untrusted bytes): every *_unmarshalled_length / set_length / unmarshal of both schemes and the g1/g2/gt unmarshal wrappers, both encodings, "
             "checked and unchecked, is executed symbolically on a buffer of SYMBOLIC length n in [1, 2^20], base alignment 1 and arbitrary (lazily symbolic) contents: "
             "every buffer read is a solver-checked bound against n, every write stays inside the exact-size destination object / slot array sized from the reported l "
             "(l enumerated -1, 0..8 quick / ..12 thorough), every access respects the alignment the IR declares given a 1-aligned buffer, reads of uninitialised bytes "
             "are flagged, and an accepted object re-marshals into exactly n bytes. Part 2 (all other API calls free of UB) is decided for the calls that the included "
             "obligations execute - byte I/O (C02), every assembly routine (C03), decoders (C09), the WKD-IBE operations incl. encrypt/decrypt (C11-C14), the LQ-IBE "
             "operations (C16), the C wrappers (C19) - under the same interpreter assertions (bounds, alignment, uninitialised reads, shift ranges, nsw/nuw, restrict "
             "overlap); not for arbitrary call sequences.",
        note="x86-64 configuration only (the ARM targets' stricter alignment rules are the reason the alignment assertion matters; their IR is not re-run). Go bindings out of scope. No sanitizer run is the deciding step (UBSan is used only to replay).",
        tech="LLVM-IR symbolic execution with a symbolic-length buffer: solver-checked bounds/alignment assertions on every access; native replay with -fsanitize=alignment",
        ref="5/C17"),
    "C18": dict(
        cat="proof",
        text="Aliasing patterns permitted by each signature are enumerated from the IR (non-noalias parameters of the output's type). Tower and curve layers: every "
             "(function, pattern) of Fq2/Fq6/Fq12 and of the G1/G2 point operations is symbolically executed with the output object being the input object and z3 "
             "decides equality with the specification for all operand values; passing the written object to a __restrict parameter anywhere below is an interpreter "
             "assertion. Word layer: BigInt<N>::shift_left/shift_right are executed twice (distinct and aliased output) over bit-vectors and z3 decides equal results "
             "for all operands and shift amounts (word offset enumerated); add/subtract/double/negate with res == a are obligations of C02/C03. Prime-field layer: "
             "exponentiate (alias-safe wrapper) and Fq::square_root with out == a over uninterpreted field operations give the same term as with a distinct output and "
             "never hand the written object to a __restrict parameter; fp_inverse<Fq|Fr>(res == a) is hazard-free (no write through res reaches a read through a: "
             "datalog reachability over the CFG in z3's fixed-point engine). Violations are replayed natively.",
        note="C wrappers forward pointers unchanged (C19). Whole-object aliasing only (partial overlap is outside the property). Recorded observation S12: FpBase::negate(out==a) "
             "hands a.val to BigInt::subtract's __restrict parameter (results proved correct under sequential IR semantics in C02).",
        tech="LLVM-IR symbolic execution under each aliasing configuration: polynomial-identity VCs mod q, bit-vector differential VCs, uninterpreted-term equality, datalog hazard reachability (z3); native replay",
        ref="5/C18"),
}

CHECKS["C19"] = dict(
    cat="proof",
    text="Every extern C wrapper of bls12_381.cpp, wkdibe.cpp and lqibe.cpp (108) is symbolically executed from the IR with every callee an "
         "uninterpreted recorder, pointer arguments distinct fresh objects and scalar/bool arguments symbolic; per path (z3 decides feasibility, case "
         "matching and scalar equality) the callee, its template instantiation, the order/identity of its arguments and the returned value are "
         "compared with a hand-reviewed specification (specs/c19_map.json). Struct size/alignment/member offsets of every C struct vs the C++ type it "
         "is cast to, coeffs[68] vs num_coeffs, and the exported constants are compared as compiler-folded constants for 7 configurations "
         "(x86-64 asm, portable 64-bit, portable 32-bit words, aarch64 and thumbv6m asm/portable) - ground comparisons, no solver.",
    note="Wrapper traces: configuration A in quick, plus P64 and P32 in thorough. Go bindings (lang/go) out of scope: no Go toolchain. Trace-level "
         "counterexamples (no native replay).",
    tech="LLVM-IR symbolic execution of every C wrapper with uninterpreted callees (trace conformance decided with z3); ground comparison of compiler-folded layout constants per configuration",
    ref="5/C19")

CHECKS["C20"] = dict(
    cat="other",
    text="Interleavings are NOT explored (no concurrency engine; nothing here claims they are). The property is reduced to the premise 'no library function "
         "writes memory other than its frame and objects reachable from its pointer arguments; globals that are read hold their load-time values', and that "
         "premise is decided over the IR of every function of every TU (configurations A, P64, P32): an interprocedural points-to relation (globals, "
         "alloca sites, caller memory; copy/GEP/phi/select/load/store/memcpy/argument/return edges; indirect calls through the dispatch pointers resolved to "
         "the assembly routines; callbacks write through whatever they are given) is emitted as Horn clauses and z3's fixed-point engine answers the queries "
         "'a store may reach a global outside the allow-list', 'a call reaches a body-less function', 'a store goes through a pointer of unknown provenance' "
         "(all empty). The x86-64 assembly is covered by the same engine over the assembled instruction stream (which register holds which argument). "
         "Static initialisers are executed in E-IR (CPUID stub 0/1): they write only the dispatch triple, Fp::one (+guard) and wkdibe::group_order, with the "
         "right values. Table look-ups (no solver): writable/TLS/guard/atomic constructs, undefined symbols and writable sections of the objects built with the Makefile's flags.",
    note="Sound flow-insensitive over-approximation; re-entrancy follows by the standard non-interference argument, caller-side races on shared objects are the caller's "
         "contract. Observation recorded in DESIGN.md: besides the dispatch table, Fp<..>::one (with guard byte), wkdibe::group_order (dynamic initialisation at load) and the "
         "non-const but never-written g1_endomorphism_lambda are writable objects; they are written only at load time / never. AArch64 and ARMv6-M assembly not analysed.",
    tech="Horn-clause points-to analysis of the LLVM IR and of the assembled x86-64 instruction stream decided by z3's fixed-point engine; symbolic execution of static initialisers; symbol-table audit",
    ref="5/C20")

NOT_APPLICABLE = {
}

PENDING_REASON = "check not built yet in this round (see DESIGN.md section 9 build order); no claim is made"


def _deps():
    """read the dependency lists from the check mains (for dep in [...]: chk.include(dep))"""
    import re
    out = {}
    for pid in CHECKS:
        src = open(os.path.join(V, "checks", pid.lower() + ".py")).read()
        deps = []
        for m in re.finditer(r"    for dep in ([\[(][^\])]*[\])]):\n        chk.include\(dep\)", src):
            deps += list(eval(m.group(1)))
        for m in re.finditer(r"chk.include\(\"(C\d\d)\"(, only=)?", src):
            deps.append(m.group(1) + (" (part)" if m.group(2) else ""))
        out[pid] = deps
    return out


DEPS = _deps()


def main():
    props = [json.loads(l)["id"] for l in open(os.path.join(V, "properties.jsonl"))]
    checks = []
    na = []
    for pid in props:
        c = CHECKS.get(pid)
        if c is None:
            na.append({"property_id": pid, "reason": NOT_APPLICABLE.get(pid, PENDING_REASON)})
            continue
        checks.append({
            "property_id": pid,
            "quick_cmd": "./check %s --tier quick" % pid,
            "thorough_cmd": "./check %s --tier thorough" % pid,
            "evidence_file": "evidence/%s.json" % pid,
            "replay_cmd_template": "./check %s --replay {path}" % pid,
            "engine": "eir",
            "level_claimed": {"category": c["cat"], "text": c["text"], "design_ref": c["ref"]},
            "level_note": c["note"] + (" Obligations named dep:<id>:* are those of the lower-layer checks whose specifications this check relies on (%s); they are "
                                       "registered here as well so that a change below that breaks this property is reported by this check." % ", ".join(DEPS[pid]) if DEPS.get(pid) else ""),
            "technique": c.get("tech", TECH),
        })
    m = {
        "version": 1,
        "setup_cmd": "python3-vt -c 'import z3; print(z3.get_version_string())' && clang++-14 --version | head -1",
        "hooks": {
            "guard": "JEDI_PAIRING_VERIF",
            "enable": "checks compile /repo's sources with -DJEDI_PAIRING_VERIF (no hook is currently present in /repo)",
            "baseline_off_cmd": "sh /verif/tools/baseline_off.sh",
            "source_commits": [],
            "add_only": True,
        },
        "engines": [
            {"name": "eir", "path": "engine/", "serves_properties": sorted(CHECKS),
             "kind_free_text": "own symbolic interpreter for clang-14 LLVM IR and assembly, value domains over z3 (bit-vectors, "
                               "integer polynomials mod q, linear integer arithmetic), native replay of counterexamples"},
        ],
        "checks": checks,
        "not_applicable": na,
        "notes": "All checks regenerate their encoding from /repo's working tree on every run; each check process uses its own scratch tree (.work/run-<pid>), "
                 "so checks may run concurrently. Exit 0 = all obligations discharged "
                 "(or only known findings), 1 = VIOLATION (reproduced natively), 2 = inconclusive (solver/engine gave no verdict).",
    }
    with open(os.path.join(V, "MANIFEST.json"), "w") as f:
        json.dump(m, f, indent=1)
    print("wrote MANIFEST.json: %d checks, %d not_applicable" % (len(checks), len(na)))


if __name__ == "__main__":
    main()
