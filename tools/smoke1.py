import sys, time, random
sys.path.insert(0, "/verif")
from engine import build, eir
q = 0x1a0111ea397fe69a4b1ba7b6434bacd764774b84f38512bf6730d2a0f6b0f6241eabfffeb153ffffb9feffffffffaaab
t0=time.time()
prog = build.load_program("P64")
print("load", time.time()-t0)
I = eir.Interp(prog)
I.run_static_initialisers()
name = prog.find1(r"embedded_pairing::core::Fp<384,.*fq_modulus_var.*>::multiply\(.*")
print(name)
def mk(name, val):
    o = I.new_obj(name, 48)
    for i in range(6):
        o.cells[8*i] = (8, (val >> (64*i)) & (2**64-1))
    return o
def rd(o):
    return sum(I.load_bytes(o, 8*i, 8) << (64*i) for i in range(6))
R = 2**384
for it in range(5):
    a = random.randrange(q); b = random.randrange(q)
    oa, ob, oo = mk("a", a), mk("b", b), I.new_obj("out", 48)
    I.path = eir.Path([])
    t0=time.time()
    I.call_named(name, [eir.Ptr(oo,0), eir.Ptr(oa,0), eir.Ptr(ob,0)])
    r = rd(oo)
    print(r == a*b*pow(R,-1,q)%q, time.time()-t0, I.steps)
