import sys, time, glob
sys.path.insert(0, "/verif")
from engine import build, easm_x86, wordspec
d = build.workdir("asm_x86")
objs = easm_x86.assemble(sorted(glob.glob("/repo/src/core/arch/x86_64/*.s")), d)
ap = easm_x86.AsmProgram(objs)
print(len(ap.ins), "instructions", len(ap.sym), "symbols")
only = sys.argv[1] if len(sys.argv) > 1 else ""
def run(name, f, *a):
    if only and only not in name: return
    t0 = time.time()
    try:
        r = f(*a)
        print("OK  ", name, "%.1fs" % (time.time()-t0), r.get("sample"))
    except Exception as e:
        print("FAIL", name, "%.1fs" % (time.time()-t0), type(e).__name__, str(e)[:300], getattr(e, "counterexample", ""))
for k in wordspec.SIMPLE:
    for alias in (0, 1, 2, 3):
        if wordspec.SIMPLE[k][0] == 1 and alias > 1: continue
        run("simple:%s:%d" % (k, alias), wordspec.x86_simple, ap, k, alias)
for variant in ("", "bmi2_adx"):
    run("mul:" + variant, wordspec.x86_multiply, ap, variant, False)
    run("sqr:" + variant, wordspec.x86_multiply, ap, variant, True)
    run("mont:" + variant, wordspec.x86_montgomery, ap, variant)
