#!/usr/bin/env python3
"""keep_seed.py <id> <property> '<needs>' '<detected_by>'  : copies /tmp/seed/<id>/out into /verif/seeded/<id>/ with meta.json"""
import json, os, shutil, sys, subprocess
sid, prop, needs, detected = sys.argv[1:5]
src = "/tmp/seed/%s/out" % sid
dst = "/verif/seeded/%s" % sid
os.makedirs(dst, exist_ok=True)
for f in os.listdir(src):
    if f.endswith((".diff", ".cpp", ".sh", ".md", ".py", ".h", ".hpp")) and os.path.getsize(os.path.join(src, f)) < 400000:
        shutil.copy(os.path.join(src, f), os.path.join(dst, f))
conf = "/tmp/seed/%s/confirm" % sid
ran = []
for f in ("test.log", "demo_mod.log", "demo_pristine.log"):
    p = os.path.join(conf, f)
    if os.path.exists(p):
        ran.append(f)
meta = {
    "seed_id": sid, "property": prop, "needs_to_manifest": needs,
    "base_commit": subprocess.run(["git", "-C", "/repo", "rev-parse", "HEAD"], capture_output=True, text=True).stdout.strip(),
    "confirmed": {"how": "tools/confirm_seed.sh %s: patch applied to a pristine export of /repo HEAD; stock test suite built and run (71 PASS lines, 0 FAIL); "
                         "run_demo.sh exits non-zero with the change and zero without it" % sid},
    "detected_by": detected,
}
json.dump(meta, open(os.path.join(dst, "meta.json"), "w"), indent=1)
print("kept", dst, os.listdir(dst))
