#!/bin/sh
# Runs the repository's own test suite on a scratch copy of /repo's working tree with the verification guard OFF
# (stock Makefile flags, no -DJEDI_PAIRING_VERIF).  Prints the suite's PASS/FAIL lines; exit status = the suite's.
set -e
V=$(cd "$(dirname "$0")/.." && pwd)
W="$V/.work/baseline_off"
rm -rf "$W"; mkdir -p "$W"
rsync -a --exclude .git --exclude bin --exclude 'pairing.a' --exclude tests/test /repo/ "$W/"
cd "$W/tests"
make -j16 test >/dev/null 2>"$W/build.log" || { cat "$W/build.log"; exit 3; }
./test
rc=$?
cd /; rm -rf "$W"
exit $rc
