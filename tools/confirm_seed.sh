#!/bin/sh
# confirm_seed.sh <id> [<outdir>]: independently confirms a seeded change produced under /tmp/seed/<id>:
#  - patch applies to a pristine export of /repo HEAD, the stock test suite builds and passes with it,
#  - the demonstration fails with the change and passes without it.
id=$1
S=${SEEDBASE:-/tmp/seed}/$id
P=$S/out/patch.diff
W=$S/confirm
rm -rf $W; mkdir -p $W/pristine $W/mod
git -C /repo archive HEAD | tar -x -C $W/pristine
git -C /repo archive HEAD | tar -x -C $W/mod
(cd $W/mod && git apply --unsafe-paths -p1 $P 2>/dev/null || patch -p1 < $P) >/dev/null || { echo "PATCH-FAILED"; exit 2; }
(cd $W/mod/tests && make -j16 test >/dev/null 2>$W/build.log && ./test > $W/test.log 2>&1; echo "suite-exit=$?")
echo "suite PASS=$(grep -c PASS $W/test.log) FAIL=$(grep -c FAIL $W/test.log)"
(sh $S/out/run_demo.sh $W/mod > $W/demo_mod.log 2>&1; echo "demo-on-modified exit=$?")
(sh $S/out/run_demo.sh $W/pristine > $W/demo_pristine.log 2>&1; echo "demo-on-pristine exit=$?")
tail -2 $W/demo_mod.log
rm -rf $W/pristine $W/mod
