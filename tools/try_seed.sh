#!/bin/sh
# try_seed.sh <seed-id> <check-id>... : applies the seeded change to /repo's working tree, runs the given checks (quick tier unless
# VERIF_TIER is set), and ALWAYS restores /repo afterwards.  Evidence/replay files written meanwhile are restored from git.
id=$1; shift
P=/verif/seeded/$id/patch.diff
[ -f "$P" ] || P=/tmp/seed/$id/out/patch.diff
[ -f "$P" ] || { echo "no patch for $id"; exit 2; }
git -C /repo diff --quiet || { echo "/repo has local changes; refusing"; exit 2; }
git -C /repo apply "$P" || { echo "patch does not apply"; exit 2; }
trap 'git -C /repo checkout -- . ; cd /verif && git checkout -- evidence 2>/dev/null; git -C /verif clean -fdq replays evidence 2>/dev/null' EXIT
cd /verif
for c in "$@"; do
  ./check $c --tier ${VERIF_TIER:-quick} > /tmp/try_seed_$id_$c.log 2>&1
  rc=$?
  echo "== seed $id check $c exit=$rc"
  grep -E "^(VIOLATION|KNOWN-FINDING|INCONCLUSIVE)|^  obligation=" /tmp/try_seed_$id_$c.log | cut -c1-260 | head -12
  tail -1 /tmp/try_seed_$id_$c.log
done
