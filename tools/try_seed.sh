#!/bin/sh
# try_seed.sh <seed-id> <check-id>... : runs the given checks (quick tier unless VERIF_TIER is set) against a scratch worktree of
# /repo with the seeded change applied (VERIF_REPO), with scratch work/evidence directories, then removes the worktree.
# /repo itself and /verif/evidence are not touched, so this can run while other checks are running.
id=$1; shift
P=/verif/seeded/$id/patch.diff
[ -f "$P" ] || P=${SEEDBASE:-/tmp/seed}/$id/out/patch.diff
[ -f "$P" ] || { echo "no patch for $id"; exit 2; }
W=/tmp/try_seed/$id.$$
mkdir -p /tmp/try_seed
git -C /repo worktree add -f --detach $W/wt HEAD >/dev/null 2>&1 || { echo "worktree failed"; exit 2; }
trap 'git -C /repo worktree remove --force $W/wt >/dev/null 2>&1; rm -rf $W' EXIT
git -C $W/wt apply "$P" || { echo "patch does not apply"; exit 2; }
cd /verif
for c in "$@"; do
  VERIF_REPO=$W/wt VERIF_WORK=$W/work VERIF_OUT=$W/out ./check $c --tier ${VERIF_TIER:-quick} > $W/$c.log 2>&1
  rc=$?
  echo "== seed $id check $c exit=$rc"
  grep -E "^(VIOLATION|KNOWN-FINDING|INCONCLUSIVE)|^  obligation=" $W/$c.log | cut -c1-260 | head -12
  tail -1 $W/$c.log
done
