#!/usr/bin/env python3
"""mutants.py [--only id,...] [--jobs N] [--list file]
Mutation campaign: each entry of tools/mutants_list.py is a one-off textual change of /repo's sources, applied on a scratch worktree
(never to /repo) and given to the named checks.  kind 'break': the change breaks the property and the check should exit 1;
kind 'equiv': the change keeps the property (a refactoring) and the check should exit 0.  Writes seeded/MUTANTS.md.
These mutants are not confirmed against the stock test suite (the seeded/ directories are); they probe the checks for blind spots,
for inconclusive verdicts on legitimate refactorings, and for false alarms."""
import json
import os
import shutil
import subprocess
import sys
import tempfile
from concurrent.futures import ThreadPoolExecutor

V = os.path.dirname(os.path.dirname(os.path.abspath(__file__)))
sys.path.insert(0, os.path.join(V, "tools"))


def run_one(m):
    W = tempfile.mkdtemp(prefix="mut_%s_" % m["id"], dir="/tmp")
    wt = os.path.join(W, "wt")
    out = {}
    try:
        r = subprocess.run(["git", "-C", "/repo", "worktree", "add", "-f", "--detach", wt, "HEAD"], capture_output=True, text=True)
        if r.returncode != 0:
            return {"error": "worktree"}
        for ed in m["edits"]:
            p = os.path.join(wt, ed["file"])
            s = open(p).read()
            n = s.count(ed["old"])
            occ = ed.get("occurrence", 0)
            if n <= occ:
                return {"error": "pattern not found (%d occurrences): %s" % (n, ed["old"][:50])}
            parts = s.split(ed["old"])
            s = ed["old"].join(parts[:occ + 1]) + ed["new"] + ed["old"].join(parts[occ + 1:])
            open(p, "w").write(s)
        for c in m["checks"]:
            env = dict(os.environ, VERIF_REPO=wt, VERIF_WORK=os.path.join(W, "work"), VERIF_OUT=os.path.join(W, "out"), VERIF_JOBS="4")
            p = subprocess.run([os.path.join(V, "check"), c, "--tier", "quick"], cwd=V, env=env, capture_output=True, text=True)
            lines = p.stdout.strip().split("\n")
            obl = [l.strip()[:230] for l in lines if l.startswith("  obligation=")]
            inc = [l[:230] for l in lines if l.startswith("INCONCLUSIVE")]
            out[c] = {"exit": p.returncode, "violated": obl[:3], "inconclusive": inc[:3], "summary": lines[-1][:160] if lines else ""}
    finally:
        subprocess.run(["git", "-C", "/repo", "worktree", "remove", "--force", wt], capture_output=True)
        shutil.rmtree(W, ignore_errors=True)
    return out


def main():
    args = sys.argv[1:]
    import mutants_list
    muts = mutants_list.MUTANTS
    if "--only" in args:
        sel = args[args.index("--only") + 1].split(",")
        muts = [m for m in muts if any(m["id"].startswith(x) for x in sel)]
    jobs = int(args[args.index("--jobs") + 1]) if "--jobs" in args else 3
    with ThreadPoolExecutor(jobs) as ex:
        res = list(ex.map(run_one, muts))
    store = os.path.join(V, "seeded", "mutants.json")
    allres = json.load(open(store)) if os.path.exists(store) else {}
    for m, r in zip(muts, res):
        allres[m["id"]] = {"kind": m["kind"], "checks": m["checks"], "note": m.get("note", ""), "edits": [(e["file"], e["old"][:80], e["new"][:80]) for e in m["edits"]], "result": r}
        want = 1 if m["kind"] == "break" else 0
        exits = {c: v.get("exit") for c, v in r.items()} if "error" not in r else r
        ok = "error" not in r and ((any(v.get("exit") == 1 for v in r.values()) if want == 1 else all(v.get("exit") == 0 for v in r.values())))
        print("%-8s %-6s %s %s" % (m["id"], m["kind"], "as-expected" if ok else "UNEXPECTED", exits))
        if not ok and "error" not in r:
            for c, v in r.items():
                for l in (v["violated"] + v["inconclusive"])[:2]:
                    print("      ", c, l[:200])
    json.dump(allres, open(store, "w"), indent=1, sort_keys=True)
    with open(os.path.join(V, "seeded", "MUTANTS.md"), "w") as f:
        f.write("# Mutation campaign (tools/mutants.py; textual one-off changes on scratch worktrees, not confirmed against the stock suite)\n\n")
        f.write("kind `break`: the check is expected to exit 1; kind `equiv`: a refactoring that keeps the property, the check is expected to exit 0.\n\n")
        f.write("| mutant | kind | change | checks -> exit | first report |\n|---|---|---|---|---|\n")
        for k in sorted(allres):
            a = allres[k]
            r = a["result"]
            if "error" in r:
                f.write("| %s | %s | %s | error: %s | |\n" % (k, a["kind"], a["note"][:100], r["error"][:60]))
                continue
            first = ""
            for c, v in r.items():
                if v["violated"]:
                    first = v["violated"][0]
                    break
                if v["inconclusive"]:
                    first = v["inconclusive"][0]
            f.write("| %s | %s | %s | %s | %s |\n" % (k, a["kind"], a["note"][:110].replace("|", "/"), ", ".join("%s:%s" % (c, v["exit"]) for c, v in r.items()), first[:140].replace("|", "/")))


if __name__ == "__main__":
    main()
