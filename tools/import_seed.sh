#!/bin/sh
# import_seed.sh <base dir> <id in base dir> <new seed id> <property> : confirms a seeded change produced under <base>/<id>/out (stock suite passes with
# it, demonstration fails with it and passes without it), copies it to /verif/seeded/<new id>/ with a meta.json, removes the agent's worktree.
base=$1; id=$2; new=$3; prop=$4
SEEDBASE=$base sh /verif/tools/confirm_seed.sh $id > $base/$id/confirm.log 2>&1
cat $base/$id/confirm.log | grep -v "^$" | head -8
grep -q "suite-exit=0" $base/$id/confirm.log && grep -q "FAIL=0" $base/$id/confirm.log && grep -q "demo-on-modified exit=[1-9]" $base/$id/confirm.log && grep -q "demo-on-pristine exit=0" $base/$id/confirm.log || { echo "NOT CONFIRMED"; exit 1; }
python3 - $base $id $new $prop <<'PY'
import json, os, shutil, subprocess, sys, re
base, sid, new, prop = sys.argv[1:5]
src = "%s/%s/out" % (base, sid); dst = "/verif/seeded/%s" % new
os.makedirs(dst, exist_ok=True)
for f in os.listdir(src):
    if f.endswith((".diff", ".cpp", ".c", ".sh", ".md", ".py", ".h", ".hpp")) and os.path.getsize(os.path.join(src, f)) < 400000:
        shutil.copy(os.path.join(src, f), os.path.join(dst, f))
notes = open(os.path.join(src, "notes.md")).read() if os.path.exists(os.path.join(src, "notes.md")) else ""
mm = re.search(r'(?is)(trigger[^\n]*\n+)(.{40,400}?)(\n\n|\n#)', notes)
meta = {"seed_id": new, "property": prop, "needs_to_manifest": (mm.group(2).strip().replace("\n", " ")[:300] if mm else ""),
        "base_commit": subprocess.run(["git", "-C", "/repo", "rev-parse", "HEAD"], capture_output=True, text=True).stdout.strip(),
        "confirmed": {"how": "tools/confirm_seed.sh: patch applied to a pristine export of /repo HEAD; stock test suite built and run (71 PASS lines, 0 FAIL); run_demo.sh exits non-zero with the change and zero without it",
                      "log": open("%s/%s/confirm.log" % (base, sid)).read()[-600:]},
        "detected_by": "TBD (tools/seed_matrix.py)"}
json.dump(meta, open(os.path.join(dst, "meta.json"), "w"), indent=1)
print("kept", dst)
PY
git -C /repo worktree remove --force $base/$id/wt 2>/dev/null
