#!/usr/bin/env python3
"""tiny helper for manual mutation testing: mut.py <file> <old> <new>  (exact, first occurrence, /repo relative)"""
import sys
p = "/repo/" + sys.argv[1]
s = open(p).read()
old = sys.argv[2].encode().decode("unicode_escape")
new = sys.argv[3].encode().decode("unicode_escape")
assert old in s, "pattern not found"
open(p, "w").write(s.replace(old, new, 1))
