"""Mutants for tools/mutants.py: id, kind (break/equiv), checks to run, edits (file, old, new[, occurrence])."""
PAIR = "src/bls12_381/pairing.cpp"
GUARD = "if (!pair.g1->is_zero() && !pair.g2->is_zero()) {"


def M(id, kind, checks, file, old, new, note, occurrence=0):
    return {"id": id, "kind": kind, "checks": checks, "note": note, "edits": [{"file": file, "old": old, "new": new, "occurrence": occurrence}]}


MUTANTS = [
    M("C08-m1", "break", ["C08"], PAIR, GUARD, "if (!pair.g1->is_zero()) {", "prepared pair in the doubling phase no longer skipped when g2 is the identity", 1),
    M("C08-m2", "break", ["C08"], PAIR, GUARD, "if (!pair.g2->is_zero()) {", "affine pair in the addition phase no longer skipped when g1 is the identity", 2),
    M("C08-m3", "break", ["C08"], PAIR, "this->infinity = g2.is_zero();", "this->infinity = false;", "prepared form forgets that g2 was the identity"),
    M("C08-m4", "equiv", ["C08"], PAIR, "tmp4.multiply2(tmp0);\n        tmp4.add(tmp4, tmp0);", "tmp4.add(tmp0, tmp0);\n        tmp4.add(tmp4, tmp0);", "3*x^2 computed by two additions"),
    M("C08-m5", "break", ["C01", "C08"], PAIR, "        if constexpr(bls_x_is_negative) {\n            result.conjugate(result);\n        }\n    }\n\n    void miller_loop(Fq12& result, const G1Affine& g1, const G2Affine& g2) {",
      "    }\n\n    void miller_loop(Fq12& result, const G1Affine& g1, const G2Affine& g2) {", "final conjugation of the Miller loop dropped: every pairing is inverted, products/prepared forms still agree"),
    M("C08-m6", "break", ["C08"], PAIR, "ell(result, pair.g2->coeffs[pair.coeff_idx++], *pair.g1);\n                    }\n                }\n            }\n\n            result.square(result);",
      "ell(result, pair.g2->coeffs[pair.coeff_idx], *pair.g1);\n                    }\n                }\n            }\n\n            result.square(result);", "prepared addition step does not advance the coefficient index"),
    M("C08-m7", "break", ["C01", "C08"], PAIR, "t1.multiply2(t6);", "t1.copy(t6);", "addition-step line coefficient b lost a factor 2 (plain and prepared both use it: still agree?)"),
    M("C08-m8", "break", ["C08"], PAIR, "pair.coeff_idx = 0;", "", "prepared pair's coefficient index not reset at the start of a Miller loop (struct reused across calls)"),
]

CURVE = "include/bls12_381/curve.hpp"
WNAF = "include/bls12_381/wnaf.hpp"
FAST = "src/bls12_381/curve_fast_multiply.cpp"
DEC = "src/bls12_381/decomposition.cpp"
CYC = "src/bls12_381/fq12_cyclotomic.cpp"
LQ = "src/lqibe/api.cpp"
FR = "src/bls12_381/fr.cpp"
FQ = "src/bls12_381/fq.cpp"
CURVEC = "src/bls12_381/curve.cpp"

MUTANTS += [
    # ---- C05
    M("C05-m1", "break", ["C05"], CURVE, "if (BaseField::equal(u1, u2) && BaseField::equal(s1, s2)) {", "if (BaseField::equal(u1, u2)) {", "P + (-P) takes the doubling detour"),
    M("C05-m2", "break", ["C05"], CURVE, "                this->z.copy(BaseField::one);\n                return;\n            }\n\n            BaseField z1z1;\n            z1z1.square(a.z);\n\n            BaseField u2;",
      "                this->z.copy(a.z);\n                return;\n            }\n\n            BaseField z1z1;\n            z1z1.square(a.z);\n\n            BaseField u2;", "O + affine Q keeps z = 0"),
    M("C05-m3", "equiv", ["C05"], CURVE, "            if (other.is_zero()) {\n                this->copy(other);\n                return;\n            }\n\n            BaseField a;\n            a.square(other.x);",
      "            BaseField a;\n            a.square(other.x);", "identity shortcut of doubling removed: z3 = 2*y*z is still 0"),
    M("C05-m4", "break", ["C05"], CURVE, "return BaseField::equal(tmp1, tmp2) && BaseField::equal(z1, z2);", "return BaseField::equal(tmp1, tmp2);", "projective equality compares x only: P == -P"),
    M("C05-m5", "break", ["C05"], CURVE, "            this->infinity = a.infinity;\n        }\n\n        // TODO: Balance", "        }\n\n        // TODO: Balance", "affine negate leaves the infinity flag stale"),
    M("C05-m6", "equiv", ["C05"], CURVE, "            i.multiply2(h);\n            i.square(i);", "            i.square(h);\n            i.multiply2(i);\n            i.multiply2(i);", "(2h)^2 computed as 4*h^2"),
    M("C05-m7", "break", ["C05"], CURVE, "                this->y.copy(a.y);\n                this->infinity = false;\n                return;", "                this->y.copy(a.y);\n                return;", "from_projective z = 1 shortcut leaves the infinity flag stale"),
    M("C05-m8", "equiv", ["C05"], CURVE, "                this->copy(Projective<BaseField>::zero);\n            } else {", "                this->x.copy(a.x);\n                this->y.copy(a.y);\n                this->z.copy(BaseField::zero);\n            } else {", "from_affine of the identity writes (x, y, 0) instead of the canonical zero"),
    M("C05-m9", "break", ["C05"], CURVE, "            if (BaseField::equal(a.x, u2) && BaseField::equal(a.y, s2)) {", "            if (BaseField::equal(a.x, u2) && BaseField::equal(a.y, b.y)) {", "mixed addition: equal-point test compares y without scaling (fails for z != 1)"),
    # ---- C06
    M("C06-m1", "equiv", ["C06"], WNAF, "if (u > (1 << window)) {", "if (u >= (1 << window)) {", "u is odd so never equals 2^w"),
    M("C06-m2", "equiv", ["C06"], WNAF, "            if (found_one) {\n                result.multiply2(result);\n            }\n\n            if (power.wnaf[i] != 0) {", "            result.multiply2(result);\n\n            if (power.wnaf[i] != 0) {", "doubling the identity is harmless"),
    M("C06-m3", "equiv", ["C06"], WNAF, "tmp.negate(table.table[(-power.wnaf[i]) >> 1]);", "tmp.negate(table.table[(-power.wnaf[i] - 1) >> 1]);", "digits are odd: (d-1)>>1 == d>>1"),
    M("C06-m4", "break", ["C06"], WNAF, "for (int i = 1; i != table_size; i++) {", "for (int i = 1; i != table_size - 1; i++) {", "last table entry never filled"),
    M("C06-m5", "break", ["C06"], WNAF, "a.bytes[0] = (uint8_t) (((-u) >> 1) + 1);", "a.bytes[0] = (uint8_t) ((-u) >> 1);", "negative digit add-back off by one"),
    M("C06-m6", "equiv", ["C06"], WNAF, "u = (int16_t) (c.bytes[0] & ((1 << (window + 1)) - 1));", "u = (int16_t) (c.bytes[0] & ((1 << window) - 1));", "unsigned window recoding: digits in [1, 2^w) only, still represents the scalar and fits the table"),
    M("C06-m7", "break", ["C06"], FAST, "if (((i & 0x1) == 0) != bls_x_is_negative) {\n                    t[i].negate(t[i]);", "if (((i & 0x1) == 0) == bls_x_is_negative) {\n                    t[i].negate(t[i]);", "G2 Frobenius bases negated for the wrong parity"),
    M("C06-m8", "break", ["C06"], FAST, "for (int i = 64; i != -1; i--) {", "for (int i = 63; i != -1; i--) {", "G2: the 65th w-NAF digit of a component is dropped"),
    M("C06-m9", "equiv", ["C06"], FAST, "         if (two_k.shift_left_in_word<1>(k) != 0) {\n             rounded_b1 = 1;\n         } else if", "         two_k.shift_left_in_word<1>(k);\n         if", "GLV rounding ignores the carry of 2k: a worse but still valid decomposition?"),
    M("C06-m10", "break", ["C06"], FAST, "                    if (!c1_neg) {\n                        timeslambda.negate(timeslambda);", "                    if (c1_neg) {\n                        timeslambda.negate(timeslambda);", "sign of negative c1 digits wrong"),
    M("C06-m11", "break", ["C06"], FAST, "if (i < wc1.wnaf_size && wc1.wnaf[i] != 0) {", "if (wc1.wnaf[i] != 0) {", "reads stale digits beyond wc1's length"),
    M("C06-m12", "break", ["C06"], CURVE, "for (int i = highest_bit; i != -1; i--) {", "for (int i = highest_bit - 1; i != -1; i--) {", "double-and-add skips the top bit"),
    # ---- C07
    M("C07-m1", "break", ["C07"], CYC, "for (int i = bls_x_highest_set_bit; i != -1; i--) {", "for (int i = bls_x_highest_set_bit - 1; i != -1; i--) {", "bit 63 of the components ignored"),
    M("C07-m2", "equiv", ["C07"], CYC, "            if (found_one) {\n                this->square_cyclotomic(*this);\n            }", "            this->square_cyclotomic(*this);", "squaring one is harmless"),
    M("C07-m3", "break", ["C07"], DEC, "            a.subtract(y, Fr::p_value);\n            div_exp_coeff(this->c[0], this->c[1], this->c[2], this->c[3], a);", "            a.subtract(y, Fr::p_value);\n            div_exp_coeff(this->c[0], this->c[1], this->c[2], this->c[3], y);", "exponents >= r decomposed without reduction: c3 overflows 64 bits"),
    M("C07-m4", "break", ["C07", "C10"], DEC, "} while (BigInt<256>::compare(y, Fr::p_value) != -1);", "} while (false);", "random exponent not rejected when >= r"),
    M("C07-m5", "break", ["C07"], CYC, "            if (((i & 0x1) == 0) != bls_x_is_negative) {\n                t[i].conjugate(t[i]);", "            if (((i & 0x1) == 0) == bls_x_is_negative) {\n                t[i].conjugate(t[i]);", "GT bases conjugated for the wrong parity"),
    M("C07-m6", "break", ["C07", "C04"], CYC, "        t6.add(t5, a.c1.c2);\n        t6.multiply2(t6);", "        t6.subtract(t5, a.c1.c2);\n        t6.multiply2(t6);", "cyclotomic squaring sign error in c1.c2"),
    M("C07-m7", "break", ["C07", "C10"], DEC, "t3.multiply(this->c[2], bls_x_squared);", "t3.multiply(this->c[2], bls_x_squared);\n            t3.add(t3, t3);", "random: returned scalar inconsistent with the components"),
    # ---- C10
    M("C10-m1", "break", ["C10"], FR, "} while (BigInt<fr_bits>::compare(this->val, fr_modulus) >= 0);", "} while (BigInt<fr_bits>::compare(this->val, fr_modulus) > 0);", "Fr::random accepts r itself"),
    M("C10-m2", "break", ["C10"], FR, "if (BigInt<fr_bits>::compare(this->val, fr_modulus) == -1) {", "if (BigInt<fr_bits>::compare(this->val, fr_modulus) != 1) {", "hash_reduce leaves r unreduced"),
    M("C10-m3", "equiv", ["C10"], FQ, "        top_byte &= 0x1F;\n\n        if", "        top_byte &= 0x3F;\n\n        if", "Fq::hash_reduce keeps bit 381: one subtraction is not enough"),
    M("C10-m4", "equiv", ["C10"], FQ, "this->val.bytes[BigInt<fq_bits>::byte_length - 1] &= 0x1F;\n        } while", "this->val.bytes[BigInt<fq_bits>::byte_length - 1] &= 0x3F;\n        } while", "Fq::random masks less: more rejections, same set"),
    M("C10-m5", "break", ["C10"], CURVE, "x.add(x, BaseField::one);", "x.multiply2(x);", "try-and-increment does not increment"),
    M("C10-m6", "break", ["C10", "C16"], LQ, "q.multiply(qaffine, G1Affine::cofactor);", "q.from_affine(qaffine);", "identity derivation does not clear the cofactor"),
    M("C10-m7", "break", ["C10"], CURVEC, "} while (result.is_zero());", "} while (false);", "random generator may be the identity"),
    M("C10-m8", "break", ["C10"], CURVEC, "result.multiply(random, Affine::cofactor);", "result.from_affine(random);", "random generator not moved into the subgroup"),
    M("C10-m9", "equiv", ["C10"], CURVEC, "(b & 0x1) == 0x1", "(b & 0x80) != 0", "another random bit selects the root"),
    # ---- C16
    M("C16-m1", "break", ["C16"], LQ, "            buffer.q.encode(id.q);\n            buffer.rp.encode(ciphertext.rp);\n            result.write_big_endian(buffer.pairing);\n        }\n\n        hash_fill(symmetric, symmetric_length, &buffer, sizeof(buffer));\n    }\n}",
      "            buffer.q.encode(sk.sq);\n            buffer.rp.encode(ciphertext.rp);\n            result.write_big_endian(buffer.pairing);\n        }\n\n        hash_fill(symmetric, symmetric_length, &buffer, sizeof(buffer));\n    }\n}", "decrypt hashes the secret key point instead of the identity"),
    M("C16-m2", "break", ["C16"], LQ, "rsp.multiply_frobenius(params.sp, rx);", "rsp.multiply_frobenius(params.p, rx);", "encryption not bound to the master key"),
    M("C16-m3", "equiv", ["C16"], LQ, "            buffer.q.encode(id.q);\n            buffer.rp.encode(ciphertext.rp);\n            result.write_big_endian(buffer.pairing);\n        }\n\n        hash_fill(symmetric, symmetric_length, &buffer, sizeof(buffer));\n    }\n}",
      "            buffer.rp.encode(ciphertext.rp);\n            buffer.q.encode(id.q);\n            result.write_big_endian(buffer.pairing);\n        }\n\n        hash_fill(symmetric, symmetric_length, &buffer, sizeof(buffer));\n    }\n}", "decrypt fills the buffer fields in another order"),
    M("C16-m4", "equiv", ["C16", "C06"], LQ, "sq.multiply(id.q, msk.s);", "sq.multiply_wnaf(id.q, msk.s);", "keygen uses the generic w-NAF multiplication"),
    M("C16-m5", "break", ["C16"], LQ, "hash_fill(symmetric, symmetric_length, &buffer, sizeof(buffer));\n    }\n}", "hash_fill(symmetric, symmetric_length, &buffer, sizeof(buffer) - 1);\n    }\n}", "decrypt hashes one byte less than encrypt"),
]

WAPI = "src/wkdibe/api.cpp"
WMAR = "src/wkdibe/marshal.cpp"
WHPP = "include/wkdibe/api.hpp"
WKD = ["C11", "C12", "C13", "C14"]

MUTANTS += [
    # ---- C11
    M("C11-m1", "break", ["C11"], WAPI, "        sk.a0.multiply(sk.a0, r);\n        sk.a0.add(sk.a0, msk.g2alpha);\n        sk.a1.multiply_frobenius(params.g, rx);", "        sk.a0.add(sk.a0, msk.g2alpha);\n        sk.a0.multiply(sk.a0, r);\n        sk.a1.multiply_frobenius(params.g, rx);", "keygen: master secret multiplied by r as well"),
    M("C11-m2", "break", ["C11", "C13"], WAPI, "            qualified.bsig.add(qualified.bsig, sk.bsig);\n", "", "qualifykey drops the parent's bsig"),
    M("C11-m3", "break", ["C11"], WAPI, "                resampled.b[i].idx = sk.b[i].idx;\n", "", "resamplekey leaves slot indices unset"),
    M("C11-m4", "break", ["C11"], WAPI, "qualified.b[j].hexp.add(qualified.b[j].hexp, sk.b[x].hexp);", "qualified.b[j].hexp.add(qualified.b[j].hexp, sk.b[j].hexp);", "qualifykey reads the parent's b with the write cursor"),
    M("C11-m5", "break", ["C11", "C12"], WAPI, "            } else if (sk.b[x].idx == i) {\n                if (!attrs.omitAllFromKeysUnlessPresent) {\n                    qualified.b[j].idx = i;\n                    qualified.b[j].hexp.copy(sk.b[x].hexp);\n                    j++;\n                }\n                x++;",
      "            } else if (sk.b[x].idx == i) {\n                {\n                    qualified.b[j].idx = i;\n                    qualified.b[j].hexp.copy(sk.b[x].hexp);\n                    j++;\n                }\n                x++;", "nondelegable_qualifykey ignores omit-all"),
    M("C11-m6", "equiv", ["C11"], WAPI, "                resampled.b[i].hexp.add(sk.b[i].hexp, temp);\n                resampled.b[i].idx = sk.b[i].idx;", "                resampled.b[i].idx = sk.b[i].idx;\n                resampled.b[i].hexp.add(sk.b[i].hexp, temp);", "two independent statements swapped"),
    M("C11-m7", "break", ["C11"], WAPI, "        } else {\n            resampled.l = 0;\n        }", "        } else {\n            resampled.l = sk.l;\n        }", "resamplekey without further qualification still advertises free slots"),
    M("C11-m8", "break", ["C11", "C13"], WAPI, "            sk.bsig.multiply(params.hsig, r);", "            sk.bsig.copy(params.hsig);", "keygen: bsig without the key's randomness"),
    M("C11-m9", "break", ["C11"], WAPI, "        qualified.a1.add(qualified.a1, sk.a1);\n    }\n\n    void nondelegable_keygen", "    }\n\n    void nondelegable_keygen", "qualifykey: a1 loses the parent's randomness"),
    M("C11-m10", "equiv", ["C11"], WAPI, "        product.multiply(product, t);\n        qualified.a0.add(qualified.a0, product);\n        qualified.a1.multiply_frobenius(params.g, tx);", "        qualified.a1.multiply_frobenius(params.g, tx);\n        product.multiply(product, t);\n        qualified.a0.add(qualified.a0, product);", "independent statements reordered in qualifykey"),
    # ---- C12
    M("C12-m1", "break", ["C12", "C11"], WAPI, "                if (free_in_sk) {\n                    x++;\n                }\n                k++;", "                if (free_in_sk && !attrs.attrs[k].omitFromKeys) {\n                    x++;\n                }\n                k++;", "qualifykey: hiding a free slot does not consume the parent's entry"),
    M("C12-m2", "break", ["C12", "C11"], WAPI, "            } else if (!attrs.omitAllFromKeysUnlessPresent) {\n                sk.b[j].idx = i;\n                sk.b[j].hexp.multiply(params.h[i], r);", "            } else {\n                sk.b[j].idx = i;\n                sk.b[j].hexp.multiply(params.h[i], r);", "keygen ignores omit-all"),
    M("C12-m3", "break", ["C12", "C11"], WAPI, "        a0affine.negate(a0affine);\n", "", "decrypt: a0 not negated"),
    M("C12-m4", "break", ["C12", "C11"], WAPI, "ciphertext.c.multiply(precomputed.prodexp, s);", "ciphertext.c.multiply(params.g3, s);", "ciphertext not bound to the attribute list"),
    M("C12-m5", "break", ["C12", "C11"], WAPI, "                if (!attrs.attrs[k].omitFromKeys) {\n                    temp.multiply(params.h[i], attrs.attrs[k].id);\n                    sk.a0.add(sk.a0, temp);\n                }\n                k++;\n            } else if (!attrs.omitAllFromKeysUnlessPresent) {\n                sk.b[j].idx = i;\n                sk.b[j].hexp.multiply",
      "                {\n                    temp.multiply(params.h[i], attrs.attrs[k].id);\n                    sk.a0.add(sk.a0, temp);\n                }\n                k++;\n            } else if (!attrs.omitAllFromKeysUnlessPresent) {\n                sk.b[j].idx = i;\n                sk.b[j].hexp.multiply", "keygen gives hidden slots a value"),
    # ---- C13
    M("C13-m1", "equiv", ["C13"], WAPI, "                if (k == attrs->length) {\n                    return;\n                }", "                if (k == attrs->length) {\n                    break;\n                }", "return and break are the same at the end of sign_precomputed"),
    M("C13-m2", "break", ["C13"], WAPI, "            prodexp.multiply(params.hsig, message);\n            prodexp.add(prodexp, precomputed.prodexp);\n            a0affine", "            prodexp.copy(params.hsig);\n            prodexp.add(prodexp, precomputed.prodexp);\n            a0affine", "verify ignores the message"),
    M("C13-m3", "break", ["C13"], WAPI, "signature.a0.multiply(sk.bsig, message);", "signature.a0.multiply(sk.bsig, s);", "sign multiplies bsig by the randomness instead of the message"),
    M("C13-m4", "break", ["C13"], WAPI, "while (k != attrs->length && attrs->attrs[k].idx < sk.b[i].idx) {", "while (k != attrs->length && attrs->attrs[k].idx <= sk.b[i].idx) {", "sign skips the attribute that matches a free slot"),
    M("C13-m6", "break", ["C13"], WAPI, "        signature.a1.add(signature.a1, sk.a1);\n", "", "signature a1 without the key's a1"),
    # ---- C14
    M("C14-m1", "break", ["C14"], WAPI, "            temp.multiply(params.h[from_attr.idx], from_attr.id);\n            temp.negate(temp);\n            precomputed.prodexp.add(precomputed.prodexp, temp);\n            i++;\n        }\n        while (j != to.length) {", "            temp.multiply(params.h[from_attr.idx], from_attr.id);\n            precomputed.prodexp.add(precomputed.prodexp, temp);\n            i++;\n        }\n        while (j != to.length) {", "adjust_precomputed: trailing removed attributes are added instead of subtracted"),
    M("C14-m2", "break", ["C14"], WAPI, "                    temp.multiply(params.h[to_attr.idx], diff);\n                    if (negative) {\n                        temp.negate(temp);\n                    }", "                    temp.multiply(params.h[to_attr.idx], diff);", "adjust_precomputed ignores the sign of the id difference"),
    M("C14-m3", "break", ["C14", "C11"], WAPI, "if (!in_to && !to.omitAllFromKeysUnlessPresent) {", "if (!in_to) {", "adjust_nondelegable ignores omit-all of the target list"),
    M("C14-m4", "equiv", ["C14"], WAPI, "            } else if (from_attr.idx < to_attr.idx) {\n                temp.multiply(params.h[from_attr.idx], from_attr.id);\n                temp.negate(temp);\n                precomputed.prodexp.add(precomputed.prodexp, temp);\n                i++;\n            } else {\n                temp.multiply(params.h[to_attr.idx], to_attr.id);\n                precomputed.prodexp.add(precomputed.prodexp, temp);\n                j++;\n            }",
      "            } else if (from_attr.idx > to_attr.idx) {\n                temp.multiply(params.h[to_attr.idx], to_attr.id);\n                precomputed.prodexp.add(precomputed.prodexp, temp);\n                j++;\n            } else {\n                temp.multiply(params.h[from_attr.idx], from_attr.id);\n                temp.negate(temp);\n                precomputed.prodexp.add(precomputed.prodexp, temp);\n                i++;\n            }", "merge branches written the other way round"),
    M("C14-m5", "break", ["C14", "C12"], WAPI, "            temp.multiply(params.h[attr.idx], attr.id);\n            precomputed.prodexp.add", "            temp.multiply(params.h[i], attr.id);\n            precomputed.prodexp.add", "precompute indexes h by list position"),
    M("C14-m6", "break", ["C14"], WAPI, "                } else if (sub_from) {\n                    temp.multiply(parent.b[i].hexp, from.attrs[j].id);\n                    temp.negate(temp);", "                } else if (sub_from) {\n                    temp.multiply(parent.b[i].hexp, from.attrs[j].id);", "adjust_nondelegable: removed attribute added instead of subtracted"),
    # ---- C15 / C17
    M("C15-m1", "break", ["C15"], WMAR, "        encoded->signature = this->signatures ? 1 : 0;\n\n        G1Affine a0affine;", "        encoded->signature = 1;\n\n        G1Affine a0affine;", "secret key marshal always claims signatures"),
    M("C15-m2", "break", ["C15"], WMAR, "((uint32_t) encoded->idx[1] << 16) | ((uint32_t) encoded->idx[2] << 8)", "((uint32_t) encoded->idx[1] << 8) | ((uint32_t) encoded->idx[2] << 16)", "free slot index bytes 1 and 2 swapped on decode"),
    M("C15-m3", "equiv", ["C15", "C17"], WMAR, "encoded->idx[0] = (uint8_t) (this->idx >> 24);", "encoded->idx[0] = (uint8_t) ((this->idx >> 24) & 0xff);", "explicit mask"),
    M("C15-m4", "break", ["C15"], WMAR, "bls12_381::pairing(this->pairing, g2affine, g1affine);", "bls12_381::pairing(this->pairing, g3affine, g1affine);", "compressed params recompute the wrong pairing"),
    M("C15-m5", "break", ["C15"], WHPP, "return Params::marshalledLengthMinimum<compressed> + (compressed ? 0 : sizeof(GT)) + ((signatures ? 1 : 0) + length) * bls12_381::Encoding<G1Affine, compressed>::size;", "return Params::marshalledLengthMinimum<compressed> + (compressed ? 0 : sizeof(GT)) + (1 + length) * bls12_381::Encoding<G1Affine, compressed>::size;", "params length accounting always counts hsig"),
    M("C15-m6", "break", ["C15", "C17"], WHPP, "            size_t bsize = marshalledLength - withoutLength;\n            return (bsize % FreeSlot::marshalledLength<compressed>) == 0 ? (bsize / FreeSlot::marshalledLength<compressed>) : -1;", "            size_t bsize = marshalledLength - withoutLength;\n            return (bsize + FreeSlot::marshalledLength<compressed> - 1) / FreeSlot::marshalledLength<compressed>;", "secret key length discovery rounds up instead of rejecting"),
    M("C17-m1", "break", ["C17", "C15"], WHPP, "            if (marshalledLength < withoutLength) {\n                return -1;\n            }\n            size_t hsize", "            size_t hsize", "params length discovery without the short-buffer guard"),
    M("C17-m2", "break", ["C17", "C15"], WMAR, "            h = hsig + 1;\n        } else {\n            h = reinterpret_cast<const Encoding<G1Affine, compressed>*>(encoded + 1);\n        }\n\n        for (int i = 0; i != this->l; i++) {", "            h = hsig + 1;\n        } else {\n            h = reinterpret_cast<const Encoding<G1Affine, compressed>*>(encoded + 1);\n        }\n\n        for (int i = 0; i <= this->l; i++) {", "params unmarshal reads one h too many"),
    M("C17-m3", "equiv", ["C17", "C15"], WMAR, "        for (int i = 0; i != this->l; i++) {\n            if (!this->b[i].unmarshal<compressed>(&b[i], checked)) {", "        for (int i = 0; i < this->l; i++) {\n            if (!this->b[i].unmarshal<compressed>(&b[i], checked)) {", "loop condition != written as <"),
]

MUTANTS += [
    M("C06-m13", "equiv", ["C06"], FAST, "            if (found_one) {\n                this->multiply2(*this);\n            }\n\n            /*\n             * Functionally", "            this->multiply2(*this);\n\n            /*\n             * Functionally", "endomorphism loop always doubles"),
    M("C06-m14", "equiv", ["C06"], FAST, "            if (found_one) {\n                this->multiply2(*this);\n            }\n            for (unsigned int j = 0; j != 4; j++) {", "            this->multiply2(*this);\n            for (unsigned int j = 0; j != 4; j++) {", "frobenius loop always doubles"),
]

MUTANTS += [
    M("C06-m15", "break", ["C06"], WNAF, "        result.copy(Projective::zero);\n\n        bool found_one = false;", "        bool found_one = false;", "wnaf_table_multiply: accumulator not initialised"),
    M("C06-m16", "break", ["C06"], FAST, "        this->copy(G1::zero);\n        bool found_one = false;", "        bool found_one = false;", "multiply_endomorphism: accumulator not initialised"),
    M("C06-m17", "break", ["C06"], FAST, "        this->copy(G2::zero);\n        bool found_one = false;", "        bool found_one = false;", "multiply_frobenius: accumulator not initialised"),
    M("C06-m18", "break", ["C06"], CURVE, "            this->copy(zero);\n            for (int i = highest_bit; i != -1; i--) {", "            for (int i = highest_bit; i != -1; i--) {", "double-and-add: accumulator not initialised"),
    M("C07-m8", "break", ["C07"], CYC, "        this->copy(Fq12::one);\n        bool found_one = false;", "        bool found_one = false;", "exponentiate_gt: accumulator not initialised"),
    M("C18-m1", "break", ["C18"], CURVE, "            const ArgType tmp = base;\n            this->multiply_doubleadd_restrict(tmp, scalar, highest_bit);", "            this->multiply_doubleadd_restrict(base, scalar, highest_bit);", "multiply_doubleadd without the private copy of the base (wrong only when this == &base)"),
    M("C18-m2", "break", ["C18"], WNAF, "        WnafTable<Projective, window> t;\n        t.fill_table(a);\n\n        WnafScalar<bits, window> s;\n        s.from_bigint(power);\n\n        wnaf_table_multiply(result, t, s);", "        WnafScalar<bits, window> s;\n        s.from_bigint(power);\n        result.copy(Projective::zero);\n\n        WnafTable<Projective, window> t;\n        t.fill_table(a);\n\n        wnaf_table_multiply(result, t, s);", "wnaf_multiply clears the result before the table is built (wrong only when result is the base)"),
    M("C18-m3", "break", ["C18"], FAST, "        this->x.multiply(a.x, g1_endomorphism_beta);\n        this->y.copy(a.y);\n        this->z.copy(a.z);", "        this->z.copy(a.z);\n        this->y.copy(a.z);\n        this->y.copy(a.y);\n        this->x.multiply(a.x, g1_endomorphism_beta);", "endomorphism: y is written from z before it is read (wrong only when this == &a)"),
    M("C18-m4", "break", ["C18"], "src/bls12_381/pairing.cpp", "        Fq12 f2;\n        f2.inverse(a);\n        Fq12 r;\n        r.multiply(f1, f2);", "        Fq12& r = result;\n        Fq12 f2;\n        r.multiply(f1, f1);\n        f2.inverse(a);\n        r.multiply(f1, f2);", "final_exponentiation writes the result object before its last read of the input"),
]

FP = "include/core/fp.hpp"
FQ2 = "src/bls12_381/fq2.cpp"
FQ6 = "src/bls12_381/fq6.cpp"
FQ12 = "src/bls12_381/fq12.cpp"
BLS = "src/bls12_381/bls12_381.cpp"

MUTANTS += [
    # ---- C02 / C03 (generic C++ field layer: Fr in every configuration, Fq in the portable ones)
    M("C02-m1", "break", ["C02", "C03"], FP, "            bool carry = this->val.add(a.val, b.val);\n            if (BigInt<bits>::compare(this->val, p) >= 0 || carry) {", "            bool carry = this->val.add(a.val, b.val);\n            if (BigInt<bits>::compare(this->val, p) > 0 || carry) {", "a + b == p is left unreduced"),
    M("C02-m2", "equiv", ["C02", "C03"], FP, "if (BigInt<bits>::compare(this->val, p) >= 0 || shift_out != 0) {", "if (BigInt<bits>::compare(this->val, p) >= 0) {", "doubling: the shifted-out bit is always 0 for p < 2^(bits-1)"),
    M("C02-m3", "break", ["C02", "C03"], FP, "            if (a.val.is_zero()) {\n#ifdef RESIST_SIDE_CHANNELS\n                this->val.subtract(a.val, BigInt<bits>::zero);\n#else\n                this->val.copy(a.val);\n#endif\n            } else {\n                this->val.subtract(p, a.val);\n            }", "            this->val.subtract(p, a.val);", "-0 becomes p"),
    M("C02-m4", "break", ["C02", "C03"], FP, "            if (BigInt<bits>::compare(a, p) == -1) {\n#ifdef RESIST_SIDE_CHANNELS\n                this->val.subtract(a, BigInt<bits>::zero);", "            if (BigInt<bits>::compare(a, p) != 1) {\n#ifdef RESIST_SIDE_CHANNELS\n                this->val.subtract(a, BigInt<bits>::zero);", "reduce leaves p unreduced"),
    M("C02-m5", "break", ["C02", "C03"], FP, " + ((typename BigInt<bits>::dword_t) carry) + ((typename BigInt<bits>::dword_t) meta_carry);", " + ((typename BigInt<bits>::dword_t) carry);", "Montgomery reduction drops the meta carry"),
    M("C02-m6", "break", ["C02"], "src/bls12_381/fq.cpp", "this->val.bytes[BigInt<fq_bits>::byte_length - 1] &= 0x1F;\n        this->into_montgomery_form();", "this->into_montgomery_form();", "Fq::read_big_endian keeps the flag bits"),
    # ---- C04
    M("C04-m1", "break", ["C04"], FQ2, "        this->c0.subtract(a.c0, a.c1);\n        this->c1.add(a.c1, t0);", "        this->c0.subtract(a.c0, a.c1);\n        this->c1.subtract(a.c1, t0);", "Fq2 multiply_by_nonresidue sign"),
    M("C04-m2", "equiv", ["C04"], FQ2, "        result.square(this->c0);\n        t.square(this->c1);\n        result.add(result, t);", "        t.square(this->c1);\n        result.square(this->c0);\n        result.add(result, t);", "norm: squares computed in the other order"),
    M("C04-m3", "break", ["C04"], FQ6, "unsigned int coeff_idx = power < 6 ? power : power % 6;", "unsigned int coeff_idx = power < 6 ? power : power % 3;", "Fq6 Frobenius coefficient index for powers >= 6"),
    M("C04-m4", "break", ["C04"], FQ12, "        this->c1.multiply(a.c1, t1);\n        this->c1.negate(this->c1);\n    }", "        this->c1.multiply(a.c1, t1);\n    }", "Fq12 inverse without the final negation"),
    M("C04-m5", "equiv", ["C04"], FQ2, "        aa.multiply(a.c0, b.c0);\n        bb.multiply(a.c1, b.c1);\n        o.add(b.c0, b.c1);", "        o.add(b.c0, b.c1);\n        bb.multiply(a.c1, b.c1);\n        aa.multiply(a.c0, b.c0);", "Fq2 multiply: independent statements reordered"),
    M("C04-m6", "break", ["C04", "C18"], FQ2, "        this->c1.add(a.c1, a.c0);\n        this->c1.multiply(this->c1, o);\n        this->c1.subtract(this->c1, aa);\n        this->c1.subtract(this->c1, bb);\n        this->c0.subtract(aa, bb);", "        this->c0.subtract(aa, bb);\n        this->c1.add(a.c1, a.c0);\n        this->c1.multiply(this->c1, o);\n        this->c1.subtract(this->c1, aa);\n        this->c1.subtract(this->c1, bb);", "Fq2 multiply writes c0 before reading a.c0 (wrong only when the output is a)"),
    # ---- C09
    M("C09-m1", "break", ["C09"], CURVEC, "            if (checked && greater) {\n                return false;\n            }", "", "uncompressed decode accepts the sign flag"),
    M("C09-m2", "break", ["C09"], CURVEC, "            if constexpr(!compressed) {\n                if (!g.is_on_curve()) {\n                    return false;\n                }\n            }", "", "uncompressed decode skips the curve equation"),
    M("C09-m3", "break", ["C09"], CURVEC, "                for (int i = 1; i != sizeof(this->data); i++) {", "                for (int i = 1; i != sizeof(this->data) - 1; i++) {", "identity padding: last byte not examined"),
    M("C09-m4", "equiv", ["C09"], CURVEC, "            if (memcmp(canonical.data, this->data, sizeof(this->data)) != 0) {\n                return false;\n            }\n            if constexpr(!compressed) {\n                if (!g.is_on_curve()) {\n                    return false;\n                }\n            }", "            if constexpr(!compressed) {\n                if (!g.is_on_curve()) {\n                    return false;\n                }\n            }\n            if (memcmp(canonical.data, this->data, sizeof(this->data)) != 0) {\n                return false;\n            }", "canonicity test after the curve test"),
    M("C09-m5", "break", ["C09"], CURVEC, "        if (checked && is_encoding_compressed(this->data[0]) != compressed) {\n            return false;\n        }", "", "form bit not checked"),
    # ---- C19
    M("C19-m1", "break", ["C19"], BLS, "return encoding->decode(*reinterpret_cast<G1Affine*>(a), checked);\n    } else {\n        const Encoding<G1Affine, false>*", "return encoding->decode(*reinterpret_cast<G1Affine*>(a), true);\n    } else {\n        const Encoding<G1Affine, false>*", "C wrapper ignores the checked flag (compressed G1)"),
    M("C19-m2", "break", ["C19"], BLS, "reinterpret_cast<Fq12*>(result)->random_gt(*s, *reinterpret_cast<const Fq12*>(base), get_random_bytes);", "reinterpret_cast<Fq12*>(result)->random_gt(*s, *reinterpret_cast<const Fq12*>(result), get_random_bytes);", "gt_multiply_random uses the result object as base"),
    M("C19-m3", "break", ["C19"], BLS, "    return Fq12::equal(*reinterpret_cast<const Fq12*>(a), *reinterpret_cast<const Fq12*>(b));", "    return Fq12::equal(*reinterpret_cast<const Fq12*>(a), *reinterpret_cast<const Fq12*>(a));", "gt_equal compares a with itself"),
]
