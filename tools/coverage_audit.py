#!/usr/bin/env python3
"""coverage_audit.py: which functions defined by /repo's translation units have their *bodies* interpreted by some check (evidence key
ir_functions_interpreted, written on every run), and which are only ever replaced by a specification (intercept) or never reached.
Reads /verif/evidence/*.json (run the checks first) and compiles /repo's TUs to IR to list the defined functions.  Prints the functions no
check executes, grouped by source file; writes /verif/seeded/COVERAGE.md."""
import json
import glob
import os
import subprocess
import sys

V = os.path.dirname(os.path.dirname(os.path.abspath(__file__)))
sys.path.insert(0, V)
from engine import build, irparse  # noqa: E402


def demangle(names):
    out = subprocess.run(["c++filt"], input="\n".join(names), capture_output=True, text=True).stdout.split("\n")
    return dict(zip(names, out))


def main():
    seen = {}
    for f in sorted(glob.glob(os.path.join(V, "evidence", "C*.json"))):
        e = json.load(open(f))
        for n in e["coverage"].get("ir_functions_interpreted", []):
            seen.setdefault(n, set()).add(e["property_id"])
    lls = build.emit_ir("A", tag="audit")
    lls.update({"harness/" + os.path.basename(h): p for h, p in build.emit_ir("A", files=[os.path.join(V, "harness", "inst_core.cpp"), os.path.join(V, "harness", "inst_curve.cpp")], tag="audit_h").items()})
    defined = {}
    for rel, ll in lls.items():
        m = irparse.parse_module(ll)
        for n, fn in m.functions.items():
            if not fn.is_decl:
                defined.setdefault(n, rel)
    dm = demangle(sorted(defined))
    missing = {}
    for n, rel in defined.items():
        if n not in seen:
            missing.setdefault(rel, []).append(dm[n])
    with open(os.path.join(V, "seeded", "COVERAGE.md"), "w") as f:
        f.write("# Functions of /repo whose bodies no check interprets (tools/coverage_audit.py; configuration A IR; assembly kernels are covered by C03's own interpreters)\n\n")
        f.write("%d of %d defined functions are interpreted by at least one check.\n\n" % (len(defined) - sum(len(v) for v in missing.values()), len(defined)))
        for rel in sorted(missing):
            f.write("## %s\n\n" % rel)
            for d in sorted(missing[rel]):
                f.write("- `%s`\n" % d)
            f.write("\n")
    for rel in sorted(missing):
        print("==", rel)
        for d in sorted(missing[rel]):
            print("   ", d[:170])
    print("%d of %d defined functions interpreted" % (len(defined) - sum(len(v) for v in missing.values()), len(defined)))


if __name__ == "__main__":
    main()
