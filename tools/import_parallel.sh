#!/bin/sh
# import_parallel.sh <base dir> <suffix letter> [parallelism] : like import_batch.sh, but confirms several finished seeds at a time; no matrix run
base=$1; sfx=$2; par=${3:-4}
for d in $base/C??; do
  id=$(basename $d)
  [ -f $d/out/notes.md ] && [ -f $d/out/patch.diff ] || continue
  [ -d /verif/seeded/$id$sfx ] && continue
  echo $id
done | xargs -P $par -I{} sh -c "sh /verif/tools/import_seed.sh $base {} {}$sfx {} 2>&1 | tail -2"
