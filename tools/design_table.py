#!/usr/bin/env python3
"""design_table.py : rewrites the 'obligations / wall' column of DESIGN.md section 0.2 from /verif/evidence/*.json (the numbers of the last run of
each check; own obligations + included lower-layer obligations)."""
import json
import os
import re
V = os.path.dirname(os.path.dirname(os.path.abspath(__file__)))
p = os.path.join(V, "DESIGN.md")
s = open(p).read()
for i in range(1, 21):
    pid = "C%02d" % i
    ev = json.load(open(os.path.join(V, "evidence", pid + ".json")))
    cov = ev["coverage"]
    n = cov.get("obligations")
    samples = cov.get("samples") or []
    own = sum(1 for r in samples if not str(r.get("obligation", "")).startswith("dep:")) if samples and len(samples) == n else None
    cell = "%s%s / %d s (%s)" % (n, (" (%d own)" % own) if own is not None else "", round(ev.get("wall_s", 0)), ev.get("tier"))
    a = s.index("### 0.2 ")
    b = s.index("### 0.3 ")
    sec, k = re.subn(r"(?m)^(\| %s \| .* \| )[^|\n]*( \| [^|\n]* \|)$" % pid, lambda m: m.group(1) + cell + m.group(2), s[a:b], count=1)
    s = s[:a] + sec + s[b:]
    print(pid, cell, "updated" if k else "ROW NOT FOUND")
open(p, "w").write(s)
