#!/bin/sh
# import_batch.sh <base dir> <suffix letter> : imports every finished seed under <base>/<id>/out (notes.md present) that is not yet under
# /verif/seeded/<id><suffix>, then runs the seed matrix for the ones imported
base=$1; sfx=$2; done_list=""
for d in $base/C??; do
  id=$(basename $d)
  [ -f $d/out/notes.md ] && [ -f $d/out/patch.diff ] || continue
  [ -d /verif/seeded/$id$sfx ] && continue
  sh /verif/tools/import_seed.sh $base $id $id$sfx $id 2>&1 | tail -2
  [ -d /verif/seeded/$id$sfx ] && done_list="$done_list,$id$sfx"
done
[ -n "$done_list" ] && cd /verif && python3 tools/seed_matrix.py --only ${done_list#,} --jobs 3 2>&1 | tail -22
