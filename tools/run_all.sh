#!/bin/sh
# run_all.sh [quick|thorough] : every claimed check on /repo's working tree, one after the other; one summary line per check
tier=${1:-quick}
cd "$(dirname "$0")/.."
for i in 01 02 03 04 05 06 07 08 09 10 11 12 13 14 15 16 17 18 19 20; do
  t0=$(date +%s)
  ./check C$i --tier $tier > /tmp/run_all_${tier}_C$i.log 2>&1
  rc=$?
  echo "C$i exit=$rc $(tail -1 /tmp/run_all_${tier}_C$i.log) [$(( $(date +%s) - t0 )) s]"
done
