#!/bin/sh
# mutate_try.sh <check> <file-in-repo> <python-replace-old> <python-replace-new> : applies a one-off textual mutation on a scratch worktree and runs the check
c=$1; f=$2; old=$3; new=$4
W=/tmp/mut_try.$$
git -C /repo worktree add -f --detach $W/wt HEAD >/dev/null 2>&1 || exit 2
trap 'git -C /repo worktree remove --force $W/wt >/dev/null 2>&1; rm -rf $W' EXIT
python3 - "$W/wt/$f" "$old" "$new" <<'PY' || exit 2
import sys
p,old,new=sys.argv[1:4]
s=open(p).read()
if s.count(old)<1: print("MUTATION: pattern not found"); sys.exit(2)
open(p,'w').write(s.replace(old,new,1))
PY
cd /verif
VERIF_REPO=$W/wt VERIF_WORK=$W/work VERIF_OUT=$W/out ./check $c --tier ${VERIF_TIER:-quick} > $W/log 2>&1
echo "exit=$? $(tail -1 $W/log)"
grep -E "^(VIOLATION|INCONCLUSIVE)" -A1 $W/log | grep -E "obligation=|INCONCLUSIVE" | cut -c1-220 | head -4
